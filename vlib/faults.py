"""Fault injection helpers: kernel-enforced short writes via RLIMIT_FSIZE in a forked child."""
import os, json, signal, resource, traceback


def run_with_fsize_limit(limit, op, inspect):
    """Fork; in the child ignore SIGXFSZ, lower the soft RLIMIT_FSIZE to `limit` bytes, run op(),
    restore the limit, run inspect(raised) and send its JSON-able result to the parent.

    Returns (result, None) or (None, description-of-abnormal-termination)."""
    r, w = os.pipe()
    pid = os.fork()
    if pid == 0:
        code = 0
        try:
            os.close(r)
            signal.signal(signal.SIGXFSZ, signal.SIG_IGN)
            soft, hard = resource.getrlimit(resource.RLIMIT_FSIZE)
            resource.setrlimit(resource.RLIMIT_FSIZE, (limit, hard))
            raised = None
            try:
                op()
            except BaseException as e:   # noqa
                raised = f'{type(e).__name__}: {str(e)[:200]}'
            finally:
                resource.setrlimit(resource.RLIMIT_FSIZE, (soft, hard))
            res = inspect(raised)
            data = json.dumps({'ok': True, 'res': res}).encode()
        except BaseException:
            data = json.dumps({'ok': False, 'tb': traceback.format_exc()[-2000:]}).encode()
            code = 3
        try:
            os.write(w, data)
            os.close(w)
        finally:
            os._exit(code)
    os.close(w)
    chunks = []
    while True:
        b = os.read(r, 65536)
        if not b:
            break
        chunks.append(b)
    os.close(r)
    _, status = os.waitpid(pid, 0)
    if os.WIFSIGNALED(status):
        return None, f'child killed by signal {os.WTERMSIG(status)}'
    try:
        d = json.loads(b''.join(chunks).decode())
    except Exception:
        return None, f'child exited with status {os.WEXITSTATUS(status)} without a result'
    if not d.get('ok'):
        return None, 'harness exception in child:\n' + d.get('tb', '')
    return d['res'], None


class FailingIter:
    """Iterable that yields the given chunks and then fails in a chosen way."""

    def __init__(self, chunks, exc=None):
        self.chunks, self.exc = chunks, exc

    def __iter__(self):
        for c in self.chunks:
            yield c
        if self.exc is not None:
            raise self.exc
