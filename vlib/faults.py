"""Fault injection helpers: kernel-enforced short writes via RLIMIT_FSIZE in a forked child."""
import os, json, signal, resource, traceback


def run_with_fsize_limit(limit, op, inspect):
    """Fork; in the child ignore SIGXFSZ, lower the soft RLIMIT_FSIZE to `limit` bytes, run op(),
    restore the limit, run inspect(raised) and send its JSON-able result to the parent.

    Returns (result, None) or (None, description-of-abnormal-termination)."""
    r, w = os.pipe()
    pid = os.fork()
    if pid == 0:
        code = 0
        try:
            os.close(r)
            signal.signal(signal.SIGXFSZ, signal.SIG_IGN)
            soft, hard = resource.getrlimit(resource.RLIMIT_FSIZE)
            resource.setrlimit(resource.RLIMIT_FSIZE, (limit, hard))
            raised = None
            try:
                op()
            except BaseException as e:   # noqa
                raised = f'{type(e).__name__}: {str(e)[:200]}'
            finally:
                resource.setrlimit(resource.RLIMIT_FSIZE, (soft, hard))
            res = inspect(raised)
            data = json.dumps({'ok': True, 'res': res}).encode()
        except BaseException:
            data = json.dumps({'ok': False, 'tb': traceback.format_exc()[-2000:]}).encode()
            code = 3
        try:
            os.write(w, data)
            os.close(w)
        finally:
            os._exit(code)
    os.close(w)
    chunks = []
    while True:
        b = os.read(r, 65536)
        if not b:
            break
        chunks.append(b)
    os.close(r)
    _, status = os.waitpid(pid, 0)
    if os.WIFSIGNALED(status):
        return None, f'child killed by signal {os.WTERMSIG(status)}'
    try:
        d = json.loads(b''.join(chunks).decode())
    except Exception:
        return None, f'child exited with status {os.WEXITSTATUS(status)} without a result'
    if not d.get('ok'):
        return None, 'harness exception in child:\n' + d.get('tb', '')
    return d['res'], None


def run_without_free_descriptors(op, inspect, slack=40):
    """Fork; in the child lower the soft RLIMIT_NOFILE to (highest descriptor in use + slack), run op(exhaust) where exhaust()
    - to be called by the data source at the moment it fails - opens /dev/null until the kernel refuses (EMFILE) and re-raises that
    OSError while keeping all of them open; afterwards the hoard is released, the limit restored and inspect(raised) runs."""
    r, w = os.pipe()
    pid = os.fork()
    if pid == 0:
        code = 0
        try:
            os.close(r)
            soft, hard = resource.getrlimit(resource.RLIMIT_NOFILE)
            top = max(int(x) for x in os.listdir('/proc/self/fd') if x.isdigit())
            resource.setrlimit(resource.RLIMIT_NOFILE, (min(top + 1 + slack, soft), hard))
            hoard = []

            def exhaust():
                while True:
                    hoard.append(os.open('/dev/null', os.O_RDONLY))     # ends in OSError(EMFILE), which propagates to the caller
            raised = None
            try:
                op(exhaust)
            except BaseException as e:   # noqa
                raised = f'{type(e).__name__}: {str(e)[:200]}'
            finally:
                for h in hoard:
                    os.close(h)
                resource.setrlimit(resource.RLIMIT_NOFILE, (soft, hard))
            res = inspect(raised)
            data = json.dumps({'ok': True, 'res': res, 'hoard': len(hoard)}).encode()
        except BaseException:
            data = json.dumps({'ok': False, 'tb': traceback.format_exc()[-2000:]}).encode()
            code = 3
        try:
            os.write(w, data)
            os.close(w)
        finally:
            os._exit(code)
    os.close(w)
    chunks = []
    while True:
        b = os.read(r, 65536)
        if not b:
            break
        chunks.append(b)
    os.close(r)
    _, status = os.waitpid(pid, 0)
    if os.WIFSIGNALED(status):
        return None, f'child killed by signal {os.WTERMSIG(status)}'
    try:
        d = json.loads(b''.join(chunks).decode())
    except Exception:
        return None, f'child exited with status {os.WEXITSTATUS(status)} without a result'
    if not d.get('ok'):
        return None, 'harness exception in child:\n' + d.get('tb', '')
    if not d.get('hoard'):
        return None, 'the data source never exhausted the descriptors'
    return d['res'], None


class FailingIter:
    """Iterable that yields the given chunks and then fails in a chosen way."""

    def __init__(self, chunks, exc=None):
        self.chunks, self.exc = chunks, exc

    def __iter__(self):
        for c in self.chunks:
            yield c
        if self.exc is not None:
            raise self.exc
