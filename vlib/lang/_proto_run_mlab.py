import warnings, os, sys, tempfile, shutil, collections
warnings.simplefilter('ignore')
sys.path.insert(0,'/tmp/probe/lang')
import numpy as np, darr
from pathlib import Path
from mlab import Interp, MArr, IllFormed, NotUnderstood
T = Path(tempfile.mkdtemp(dir='/dev/shm'))
NUMT = ['int8','int16','int32','int64','uint8','uint16','uint32','uint64','float16','float32','float64','complex64','complex128']
rng = np.random.default_rng(0)
res = collections.Counter(); ex={}
def drop_trailing(sh):
    sh=list(sh)
    while len(sh)>2 and sh[-1]==1: sh.pop()
    while len(sh)<2: sh.append(1)
    return tuple(sh)
i=0
for nt in NUMT:
    for bo in '<>':
        for shape in [(5,),(1,),(2,3),(3,1),(1,4),(2,3,4),(4,1,2),(2,3,4,5),(1,2,1,3)]:
            i+=1; dt=np.dtype(nt).newbyteorder(bo); n=int(np.prod(shape))
            raw = rng.permutation(256)[:min(256,n*dt.itemsize)].astype('u1')
            raw = np.resize(raw, n*dt.itemsize)
            x = np.frombuffer(raw.tobytes(), dtype=dt).reshape(shape)
            if dt.kind in 'fc': x = (np.arange(n).reshape(shape)*1.5+ (2.25j if dt.kind=='c' else 0)).astype(dt)
            a = darr.asarray(T/f'a{i}', x)
            code = a.readcode('matlab')
            it = Interp(str(T/f'a{i}'))
            try:
                it.run(code); r = it.env['a']
                ok = r.dims == drop_trailing(shape[::-1]) and np.array_equal(r.data.astype(x.dtype.newbyteorder('=')), x.ravel().astype(x.dtype.newbyteorder('='))) and it.opened==['arrayvalues.bin'] and not it.files
                key = 'ok' if ok else 'MISMATCH'
            except IllFormed as e: key = f'illformed: {str(e)[:50]}'
            except NotUnderstood as e: key = f'notunderstood: {e}'
            res[key]+=1; ex.setdefault(key,(nt,bo,shape))
print(res); 
for k,v in ex.items(): print(k, v)
# ragged
res = collections.Counter(); ex={}
for nt in ['int32','float64','complex64','uint8']:
  for it_ in ['int64','int32','uint8']:
    for atom in [(),(2,),(3,2),(2,1,3)]:
        for prof in [[3],[2,0],[0,2],[1,2,3],[0,0,4],[2,0,3,0,1,4,2]]:
            i+=1
            subs=[]; c=0
            for L in prof:
                m=int(np.prod((L,)+atom)); subs.append((np.arange(c,c+m)).reshape((L,)+atom).astype(nt)); c+=m
            r = darr.asraggedarray(T/f'r{i}', subs, dtype=nt, indextype=it_)
            code = r.readcode('matlab'); itp=Interp(str(T/f'r{i}'))
            try:
                itp.run(code); f=itp.env['getsubarray']; bad=None
                for k,sub in enumerate(subs):
                    loc=dict(f[3]); loc['k']=k+1; out=itp.ev(f[2],loc)
                    want=drop_trailing(sub.shape[::-1])
                    if sub.shape[0]==0:
                        if out.data.size!=0: bad=('notempty',k)
                    elif out.dims!=want or not np.array_equal(out.data.astype(sub.dtype), sub.ravel()): bad=('wrong',k,out.dims,want)
                key='ok' if bad is None else f'MISMATCH {bad[0]}'
            except IllFormed as e: key=f'illformed: {str(e)[:60]}'
            except NotUnderstood as e: key=f'notunderstood: {e}'
            res[key]+=1; ex.setdefault(key,(nt,it_,atom,prof))
print(res)
for k,v in ex.items(): print(k,v)
shutil.rmtree(T)
