"""Throw-away feasibility prototype: reference interpreter for the Matlab/Octave subset."""
import re, struct, os
import numpy as np

class IllFormed(Exception): pass
class NotUnderstood(Exception): pass

TOK = re.compile(r"""
  (?P<ws>[ \t]+) | (?P<comment>%[^\n]*) | (?P<nl>\n) |
  (?P<num>\d+(\.\d+)?) | (?P<str>'(?:[^'\n]|'')*') |
  (?P<id>[A-Za-z_][A-Za-z_0-9]*(\.[A-Za-z_][A-Za-z_0-9]*)*) |
  (?P<op>==|[@()\[\],;:+\-*=])
""", re.X)

def lex(src):
    out=[]; i=0
    while i < len(src):
        m = TOK.match(src, i)
        if not m: raise IllFormed(f'bad character {src[i]!r} at {i}')
        k = m.lastgroup; i = m.end()
        if k in ('ws','comment'): continue
        out.append((k, m.group(k)))
    out.append(('eof',''))
    return out

class P:
    def __init__(s, toks): s.t=toks; s.i=0
    def peek(s): return s.t[s.i]
    def next(s): tok=s.t[s.i]; s.i+=1; return tok
    def accept(s, kind, val=None):
        k,v = s.t[s.i]
        if k==kind and (val is None or v==val): s.i+=1; return True
        return False
    def expect(s, kind, val=None):
        if not s.accept(kind,val): raise IllFormed(f'expected {val or kind}, got {s.peek()}')
    def program(s):
        stmts=[]
        while s.peek()[0]!='eof':
            if s.accept('nl') or s.accept('op',';'): continue
            stmts.append(s.statement())
        return stmts
    def statement(s):
        # assignment?  id = expr
        if s.peek()[0]=='id' and s.t[s.i+1]==('op','='):
            name=s.next()[1]; s.next(); e=s.expr(); st=('assign',name,e)
        else:
            st=('expr', s.expr())
        if not (s.accept('op',';') or s.accept('nl') or s.peek()[0]=='eof'):
            raise IllFormed(f'unexpected {s.peek()} after statement')
        return st
    def expr(s): return s.range_()
    def range_(s):
        a=s.additive()
        if s.peek()==('op',':') :
            s.next(); b=s.additive(); return ('range',a,b)
        return a
    def additive(s):
        a=s.unary()
        while s.peek() in (('op','+'),('op','-')):
            op=s.next()[1]; b=s.unary(); a=('bin',op,a,b)
        return a
    def unary(s):
        if s.accept('op','-'): return ('neg', s.unary())
        return s.postfix()
    def postfix(s):
        a=s.primary()
        while s.peek()==('op','('):
            s.next(); args=[]
            if not s.accept('op',')'):
                while True:
                    if s.peek()==('op',':') and s.t[s.i+1] in (('op',','),('op',')')):
                        s.next(); args.append(('colon',))
                    else: args.append(s.expr())
                    if s.accept('op',')'): break
                    s.expect('op',',')
            a=('call',a,args)
        return a
    def primary(s):
        k,v=s.next()
        if k=='num': return ('num', float(v) if '.' in v else int(v))
        if k=='str': return ('str', v[1:-1].replace("''","'"))
        if k=='id': return ('id', v)
        if (k,v)==('op','('):
            e=s.expr(); s.expect('op',')'); return e
        if (k,v)==('op','['):
            items=[]
            if not s.accept('op',']'):
                while True:
                    items.append(s.expr())
                    if s.accept('op',']'): break
                    s.accept('op',',')
            return ('matrix', items)
        if (k,v)==('op','@'):
            s.expect('op','('); params=[]
            while not s.accept('op',')'):
                params.append(s.next()[1]); s.accept('op',',')
            return ('lambda', params, s.expr())
        raise IllFormed(f'unexpected token {k} {v!r}')

SRC = {'int8':'i1','int16':'i2','int32':'i4','int64':'i8','uint8':'u1','uint16':'u2','uint32':'u4','uint64':'u8',
       'single':'f4','float32':'f4','double':'f8','float64':'f8','uchar':'u1','schar':'i1','char':'u1'}
FMT = {'ieee-le':'<','l':'<','ieee-be':'>','b':'>','n':'=','native':'='}

class MArr:
    """column-major array: dims tuple (>=2 like Matlab), data 1-D numpy in column-major order"""
    def __init__(s, data, dims):
        dims=list(dims)
        while len(dims)>2 and dims[-1]==1: dims.pop()
        while len(dims)<2: dims.append(1)
        s.data=np.asarray(data); s.dims=tuple(int(d) for d in dims)
        assert s.data.size==int(np.prod(s.dims)), (s.data.size, s.dims)
    def nd(s): return s.data.reshape(s.dims, order='F')

class Interp:
    def __init__(s, cwd): s.cwd=cwd; s.env={}; s.files={}; s.opened=[]; s.nfid=3
    def run(s, src):
        for st in P(lex(src)).program():
            if st[0]=='assign': s.env[st[1]]=s.ev(st[2], s.env)
            else: s.ev(st[1], s.env)
    def scalar(s, v):
        if isinstance(v, MArr):
            if v.data.size!=1: raise IllFormed('scalar expected')
            return v.data.reshape(-1)[0].item()
        return v
    def ev(s, e, env):
        k=e[0]
        if k=='num': return e[1]
        if k=='str': return e[1]
        if k=='id':
            if e[1] in env: return env[e[1]]
            raise IllFormed(f'undefined variable {e[1]}')
        if k=='neg': return -s.scalar(s.ev(e[1],env))
        if k=='bin':
            a=s.scalar(s.ev(e[2],env)); b=s.scalar(s.ev(e[3],env)); return a+b if e[1]=='+' else a-b
        if k=='range':
            a=int(s.scalar(s.ev(e[1],env))); b=int(s.scalar(s.ev(e[2],env)))
            return MArr(np.arange(a,b+1), (1,max(0,b-a+1)))
        if k=='matrix':
            vals=[s.scalar(s.ev(x,env)) for x in e[1]]; return MArr(np.array(vals), (1,len(vals)))
        if k=='lambda':
            captured=dict(env); return ('closure', e[1], e[2], captured)
        if k=='call':
            f=e[1]
            if f[0]=='id' and f[1] in env:
                target=env[f[1]]
                if isinstance(target, tuple) and target[0]=='closure':
                    args=[s.ev(a,env) for a in e[2]]
                    loc=dict(target[3]); loc.update(zip(target[1],args)); return s.ev(target[2], loc)
                return s.index(target, e[2], env)
            if f[0]=='id': return s.builtin(f[1], [s.ev(a,env) for a in e[2]])
            raise IllFormed('bad call target')
        raise NotUnderstood(k)
    def index(s, arr, args, env):
        if not isinstance(arr, MArr): raise IllFormed('indexing a non-array')
        n=len(args); dims=list(arr.dims)
        if n==1:  # linear indexing
            idx=args[0]
            if idx==('colon',): return MArr(arr.data, (arr.data.size,1))
            v=s.ev(idx,env); ii=(v.data if isinstance(v,MArr) else np.array([v])).astype(int)
            if ii.size and (ii.min()<1 or ii.max()>arr.data.size): raise IllFormed('index out of bounds')
            out=arr.data[ii-1]
            shape=(ii.size,1) if arr.dims[1]==1 else (1,ii.size)
            if isinstance(v,MArr) and v.data.size==0: shape=(0,0) if False else ((0,1) if arr.dims[1]==1 else (1,0))
            return MArr(out, shape)
        if n<len(dims): # fold trailing dims
            dims=dims[:n-1]+[int(np.prod(dims[n-1:]))]
        while len(dims)<n: dims.append(1)
        nd=arr.data.reshape(dims, order='F'); sel=[]
        for d,a in zip(dims,args):
            if a==('colon',): sel.append(np.arange(d))
            else:
                v=s.ev(a,env); ii=(v.data if isinstance(v,MArr) else np.array([v])).astype(int)
                if ii.size and (ii.min()<1 or ii.max()>d): raise IllFormed(f'index {ii} out of bounds for dim {d}')
                sel.append(ii-1)
        out=nd[np.ix_(*sel)]
        return MArr(out.ravel(order='F'), out.shape)
    def builtin(s, name, a):
        if name=='fopen':
            if len(a)==1: mode='r'
            elif len(a)>=2: mode=a[1]
            if not isinstance(a[0],str): raise IllFormed('fopen: name must be string')
            if mode not in ('r','rb'): raise IllFormed(f'MODIFIES: fopen mode {mode}')
            s.opened.append(a[0]); fid=s.nfid; s.nfid+=1
            s.files[fid]=[open(os.path.join(s.cwd,a[0]),'rb').read(),0]; return fid
        if name=='fclose':
            if a[0] not in s.files: raise IllFormed('fclose: bad fid')
            del s.files[a[0]]; return 0
        if name=='fseek':
            buf=s.files[a[0]]
            if a[2] not in ('bof',-1): raise NotUnderstood('fseek origin')
            buf[1]=int(a[1]); return 0
        if name=='fread':
            if not 3<=len(a)<=5: raise IllFormed('fread: wrong number of arguments')
            fid,size,prec=a[0],a[1],a[2]; rest=a[3:]; skip=0; fmt='n'
            if fid not in s.files: raise IllFormed('fread: invalid file id')
            if len(rest)==2: skip,fmt=rest
            elif len(rest)==1:
                if isinstance(rest[0],str): fmt=rest[0]
                else: skip=rest[0]
            if isinstance(skip,str) or isinstance(skip,MArr): raise IllFormed('fread: skip must be a numeric scalar')
            if not isinstance(fmt,str) or fmt not in FMT: raise IllFormed(f'fread: invalid machine format {fmt!r}')
            if not isinstance(prec,str): raise IllFormed('fread: precision must be a string')
            keep=prec.startswith('*'); src=prec.lstrip('*')
            if '=>' in src: raise NotUnderstood('=> precision')
            if src not in SRC: raise IllFormed(f'fread: unknown precision {prec!r}')
            if isinstance(size,MArr):
                dims=[int(x) for x in size.data]
                if len(dims)!=2: raise IllFormed('fread: size must be a scalar or [m n]')
            else: dims=[int(size),1]
            n=int(np.prod(dims)); dt=np.dtype(FMT[fmt].replace('=','<')+SRC[src]); buf=s.files[fid]
            vals=[]; pos=buf[1]
            for _ in range(n):
                if pos+dt.itemsize>len(buf[0]): break
                vals.append(np.frombuffer(buf[0],dtype=dt,count=1,offset=pos)[0]); pos+=dt.itemsize+int(skip)
            buf[1]=pos
            if len(vals)!=n: raise IllFormed(f'fread: short read {len(vals)} of {n}')
            data=np.array(vals,dtype=dt.newbyteorder('=')) if keep else np.array(vals,dtype='f8')
            return MArr(data,dims)
        if name=='reshape':
            arr,sz=a; dims=[int(x) for x in sz.data]
            if int(np.prod(dims))!=arr.data.size: raise IllFormed('reshape: number of elements must not change')
            return MArr(arr.data,dims)
        if name=='complex':
            re_,im=a
            if re_.dims!=im.dims: raise IllFormed('complex: size mismatch')
            return MArr(re_.data+1j*im.data.astype(re_.data.dtype), re_.dims) if re_.data.dtype==np.float64 else MArr((re_.data.astype('f4')+1j*im.data.astype('f4')).astype('c8'), re_.dims)
        if name=='half.typecast':
            arr=a[0]
            if arr.data.dtype!=np.uint16: raise IllFormed('half.typecast needs uint16')
            return MArr(arr.data.view('f2'),arr.dims)
        raise NotUnderstood(f'builtin {name}')
