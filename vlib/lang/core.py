"""Shared front end of the reference interpreters for Darr's generated read code.

One lexer and one Pratt-style expression parser, parameterised by a dialect
description (comment syntax, string quotes, range operator, which brackets call
and which index, keyword arguments, ...).  The per-dialect statement parsers and
evaluators live in dialects.py.

Verdicts: IllFormed  = the program violates the dialect's syntax or calls a
                       built-in in a way its documentation does not allow
          NotUnderstood = a construct outside the subset these interpreters
                       know (harness limitation, never a violation)
          Indeterminate = depends on dialect behaviour that cannot be confirmed
                       offline (never fails a check)
"""
import re
import numpy as np


class IllFormed(Exception):
    pass


class NotUnderstood(Exception):
    pass


class Indeterminate(Exception):
    pass


class Modifies(IllFormed):
    """The program opens a file of the array for writing."""


# ------------------------------------------------------------------ lexer
class Dialect:
    name = '?'
    line_comments = ()          # strings starting a comment that runs to end of line
    block_comments = ()         # (start, end) pairs
    quotes = '"'                # characters that delimit strings
    doubled_quote_escape = False
    idchars_extra = ''          # extra characters allowed inside identifiers (after the first char)
    multi_ops = ('<-', ':=', '->', ';;', '..', '::', '==', '_?', '<=', '>=')
    keywords = ()


TOKEN_NUM = re.compile(r'\d+\.\d*(?:[eE][-+]?\d+)?|\d+(?:[eE][-+]?\d+)?|\.\d+')
TOKEN_ID = re.compile(r'[A-Za-z_][A-Za-z_0-9]*')


def lex(src, d):
    toks = []
    i, n = 0, len(src)
    while i < n:
        c = src[i]
        if c in ' \t\r':
            i += 1
            continue
        if c == '\n':
            toks.append(('nl', '\n', i))
            i += 1
            continue
        hit = False
        for s, e in d.block_comments:
            if src.startswith(s, i):
                j = src.find(e, i + len(s))
                if j < 0:
                    raise IllFormed(f'unterminated comment starting at offset {i}')
                # keep line structure
                toks.extend(('nl', '\n', i) for _ in range(src.count('\n', i, j)))
                i = j + len(e)
                hit = True
                break
        if hit:
            continue
        for s in d.line_comments:
            if src.startswith(s, i):
                j = src.find('\n', i)
                i = n if j < 0 else j
                hit = True
                break
        if hit:
            continue
        if c in d.quotes:
            j = i + 1
            buf = []
            while True:
                if j >= n or src[j] == '\n':
                    raise IllFormed(f'unterminated string at offset {i}')
                if src[j] == c:
                    if d.doubled_quote_escape and j + 1 < n and src[j + 1] == c:
                        buf.append(c)
                        j += 2
                        continue
                    break
                if src[j] == '\\' and not d.doubled_quote_escape and j + 1 < n:
                    buf.append(src[j + 1])
                    j += 2
                    continue
                buf.append(src[j])
                j += 1
            toks.append(('str', ''.join(buf), i))
            i = j + 1
            continue
        m = TOKEN_NUM.match(src, i)
        if m and not (c == '.' and src.startswith('..', i)):
            # do not swallow the range operator of Maple: "1..3" / "1 .. 3"
            txt = m.group(0)
            if txt.endswith('.') and src.startswith('..', m.end() - 1):
                txt = txt[:-1]
            toks.append(('num', txt, i))
            i += len(txt)
            continue
        m = TOKEN_ID.match(src, i)
        if m:
            j = m.end()
            while j < n and src[j] in d.idchars_extra and (src[j] != '.' or (j + 1 < n and (src[j + 1].isalpha() or src[j + 1] == '_'))):
                j += 1
                m2 = TOKEN_ID.match(src, j)
                if m2:
                    j = m2.end()
            toks.append(('id', src[i:j], i))
            i = j
            continue
        for op in d.multi_ops:
            if src.startswith(op, i):
                toks.append(('op', op, i))
                i += len(op)
                hit = True
                break
        if hit:
            continue
        if c in '()[]{},;:+-*/=@<>?!&|^~$\\.\'"`%#':
            toks.append(('op', c, i))
            i += 1
            continue
        raise IllFormed(f'unexpected character {c!r} at offset {i}')
    toks.append(('eof', '', n))
    return toks


# ------------------------------------------------------------------ parser base
class Parser:
    """Token cursor + shared expression grammar. Subclasses configure it and add statements."""
    range_op = ':'
    call_brackets = ('(',)          # postfix brackets that mean call-or-index
    index_brackets = ()             # postfix brackets that always mean index
    kwargs = False                  # name=value inside argument lists
    all_tokens = (':',)             # a lone token in argument position meaning "whole axis"
    cmp_ops = ('>', '<', '==', '>=', '<=')
    cmp_words = ()                  # e.g. EQ in IDL

    def __init__(self, toks):
        self.t = toks
        self.i = 0

    # -- cursor
    def peek(self, k=0):
        return self.t[min(self.i + k, len(self.t) - 1)]

    def next(self):
        tok = self.t[self.i]
        self.i += 1
        return tok

    def at(self, kind, val=None, k=0):
        tk = self.peek(k)
        return tk[0] == kind and (val is None or tk[1] == val)

    def at_op(self, val, k=0):
        return self.at('op', val, k)

    def accept(self, kind, val=None):
        if self.at(kind, val):
            self.i += 1
            return True
        return False

    def expect(self, kind, val=None):
        if not self.accept(kind, val):
            tk = self.peek()
            raise IllFormed(f'expected {val or kind!r} but found {tk[1]!r} at offset {tk[2]}')

    def skipnl(self):
        while self.at('nl'):
            self.i += 1

    # -- expressions
    def expr(self):
        a = self.range_()
        tk = self.peek()
        if (tk[0] == 'op' and tk[1] in self.cmp_ops) or (tk[0] == 'id' and tk[1] in self.cmp_words):
            self.next()
            b = self.range_()
            return ('cmp', tk[1], a, b)
        return a

    def range_(self):
        a = self.additive()
        if self.at_op(self.range_op):
            # a lone ':' before ',' or a closing bracket is handled by args(); here it is binary
            self.next()
            b = self.additive()
            return ('range', a, b)
        return a

    def additive(self):
        a = self.mult()
        while self.at_op('+') or self.at_op('-'):
            op = self.next()[1]
            b = self.mult()
            a = ('bin', op, a, b)
        return a

    def mult(self):
        a = self.unary()
        while self.at_op('*') and not self.star_is_all():
            self.next()
            b = self.unary()
            a = ('bin', '*', a, b)
        return a

    def star_is_all(self):
        return False

    def unary(self):
        if self.at_op('-'):
            self.next()
            return ('neg', self.unary())
        if self.at_op('+'):
            self.next()
            return self.unary()
        return self.postfix()

    def postfix(self):
        a = self.primary()
        while True:
            if self.at('op') and self.peek()[1] in self.call_brackets:
                close = {'(': ')', '[': ']'}[self.next()[1]]
                a = ('call', a, self.args(close))
            elif self.at('op') and self.peek()[1] in self.index_brackets:
                close = {'(': ')', '[': ']'}[self.next()[1]]
                a = ('index', a, self.args(close))
            else:
                a2 = self.postfix_extra(a)
                if a2 is None:
                    return a
                a = a2

    def postfix_extra(self, a):
        return None

    def args(self, close):
        out = []
        self.skipnl()
        if self.accept('op', close):
            return out
        while True:
            self.skipnl()
            tk = self.peek()
            nxt = self.peek(1)
            if tk[0] == 'op' and tk[1] in (',', close):
                out.append(('empty',))
            elif tk[0] == 'op' and tk[1] in self.all_tokens and nxt[0] == 'op' and nxt[1] in (',', close):
                self.next()
                out.append(('all',))
            elif self.kwargs and tk[0] == 'id' and nxt == ('op', '=', nxt[2]) and not self.at_op('=', 2):
                self.next()
                self.next()
                out.append(('kw', tk[1], self.expr()))
            else:
                out.append(('pos', self.arg_expr()))
            self.skipnl()
            if self.accept('op', close):
                return out
            self.expect('op', ',')

    def arg_expr(self):
        return self.expr()

    def primary(self):
        tk = self.next()
        k, v = tk[0], tk[1]
        if k == 'num':
            return ('num', float(v) if any(ch in v for ch in '.eE') else int(v))
        if k == 'str':
            return ('str', v)
        if k == 'id':
            return ('id', v)
        if k == 'op' and v == '(':
            self.skipnl()
            items = []
            trailing = False
            if not self.at_op(')'):
                while True:
                    items.append(self.expr())
                    self.skipnl()
                    if self.accept('op', ','):
                        self.skipnl()
                        if self.at_op(')'):
                            trailing = True
                            break
                        continue
                    break
            self.expect('op', ')')
            if len(items) == 1 and not trailing:
                return items[0]
            return ('tuple', items)
        if k == 'op' and v == '[':
            return ('matrix', self.items(']'))
        if k == 'op' and v == '{':
            return ('list', self.items('}'))
        return self.primary_extra(tk)

    def primary_extra(self, tk):
        raise IllFormed(f'unexpected {tk[1]!r} at offset {tk[2]}')

    def items(self, close):
        out = []
        self.skipnl()
        if self.accept('op', close):
            return out
        while True:
            self.skipnl()
            out.append(self.expr())
            self.skipnl()
            if self.accept('op', close):
                return out
            if not self.accept('op', ','):
                # matlab/scilab allow blank-separated items; accept them
                if self.at('num') or self.at('id'):
                    continue
                tk = self.peek()
                raise IllFormed(f"expected ',' or {close!r} but found {tk[1]!r} at offset {tk[2]}")


# ------------------------------------------------------------------ values
class FileH:
    def __init__(self, path, data):
        self.path, self.data, self.pos, self.closed = path, data, 0, False


class Closure:
    def __init__(self, params, body, env, kind='expr'):
        self.params, self.body, self.env, self.kind = params, body, env, kind


def colarr(flat, dims):
    """Column-major array value: numpy array of shape dims whose 'F' ravel is flat."""
    flat = np.asarray(flat)
    return flat.reshape(tuple(int(d) for d in dims), order='F')


def flatF(a):
    return np.asarray(a).ravel(order='F')


def read_items(fh, dtype, count=None, skip=0):
    """Read `count` items (all that remain when None) of numpy dtype from the handle; honours a byte skip after each item."""
    dt = np.dtype(dtype)
    if skip == 0:
        avail = (len(fh.data) - fh.pos) // dt.itemsize
        n = avail if count is None else min(count, avail)
        out = np.frombuffer(fh.data, dtype=dt, count=n, offset=fh.pos)
        fh.pos += n * dt.itemsize
        return out.copy()
    vals = []
    while count is None or len(vals) < count:
        if fh.pos + dt.itemsize > len(fh.data):
            break
        vals.append(np.frombuffer(fh.data, dtype=dt, count=1, offset=fh.pos)[0])
        fh.pos += dt.itemsize + skip
    return np.array(vals, dtype=dt)
