"""Reference interpreters for the seven non-Python dialects of Darr's read code.

Each interpreter implements exactly the built-ins the snippets may use, with the
documented semantics summarised in DESIGN.md section 3.6.  Arrays of column-major
dialects are numpy arrays whose shape is the dialect's dims and whose Fortran
ravel is the dialect's memory order; Mathematica lists are C-ordered.
"""
import os, re
import numpy as np
from .core import (Dialect, Parser, lex, IllFormed, NotUnderstood, Indeterminate, Modifies, FileH, Closure, colarr, flatF,
                   read_items)


# ====================================================================== common interpreter machinery
class Interp:
    lang = '?'
    colmajor = True
    squeeze_compare = False      # dims are compared modulo singleton axes
    index_origin = 1

    def __init__(self, cwd, override=None):
        self.cwd = cwd
        self.env = {}
        self.opened = []          # (path string as written in the program, mode)
        self.override = override or {}

    # -- files
    def open_file(self, path, mode='r'):
        if not isinstance(path, str):
            raise IllFormed(f'file name must be a string, got {type(path).__name__}')
        if any(c in mode for c in 'wa+'):
            self.opened.append((path, mode))
            raise Modifies(f'opens {path!r} with mode {mode!r}')
        self.opened.append((path, mode))
        full = path if os.path.isabs(path) else os.path.join(self.cwd, path)
        try:
            with open(full, 'rb') as f:
                return FileH(path, f.read())
        except OSError as e:
            raise IllFormed(f'cannot open {path!r}: {e}')

    def assign(self, name, value, env=None):
        env = self.env if env is None else env
        if env is self.env and name in self.override:
            value = self.override[name]
        env[name] = value

    def scalar(self, v):
        if isinstance(v, np.ndarray):
            if v.size != 1:
                raise IllFormed(f'scalar expected, got array of dims {v.shape}')
            v = v.reshape(-1)[0]
        if isinstance(v, np.generic):
            v = v.item()
        return v

    def toint(self, v):
        v = self.scalar(v)
        if isinstance(v, float) and v.is_integer():
            v = int(v)
        if not isinstance(v, int) or isinstance(v, bool):
            raise IllFormed(f'integer expected, got {v!r}')
        return v

    def arith(self, op, a, b):
        a, b = self.scalar(a), self.scalar(b)
        if isinstance(a, str) or isinstance(b, str):
            raise IllFormed('arithmetic on a string')
        return a + b if op == '+' else a - b if op == '-' else a * b

    def compare(self, op, a, b):
        a, b = self.scalar(a), self.scalar(b)
        return {'>': a > b, '<': a < b, '==': a == b, 'EQ': a == b, '>=': a >= b, '<=': a <= b}[op]

    # -- generic subscripting of a column-major array with 1-based (or 0-based) inclusive subscripts
    def subscript(self, arr, subs, fold=True, drop_scalars=False, allow_linear=True):
        """subs: list of 'all' | int | 1-D integer ndarray (already in the dialect's origin)."""
        arr = np.asarray(arr)
        o = self.index_origin
        dims = list(arr.shape)
        n = len(subs)
        if n == 1 and allow_linear and arr.ndim != 1:
            flat = flatF(arr)
            s = subs[0]
            if isinstance(s, str):
                return flat.copy()
            ii = np.atleast_1d(np.asarray(s, dtype='int64')) - o
            if ii.size and (ii.min() < 0 or ii.max() >= flat.size):
                raise IllFormed(f'index out of bounds: {np.atleast_1d(s)[:4]} for {flat.size} elements')
            res = flat[ii]
            return res.reshape(-1)[0] if np.ndim(s) == 0 else res
        if n < len(dims):
            if not fold:
                raise IllFormed(f'{n} subscripts for an array of rank {len(dims)}')
            dims = dims[:n - 1] + [int(np.prod(dims[n - 1:]))]
        while len(dims) < n:
            dims.append(1)
        nd = flatF(arr).reshape(dims, order='F')
        sel, keep = [], []
        for d, s in zip(dims, subs):
            if isinstance(s, str):
                sel.append(np.arange(d))
                keep.append(True)
            else:
                ii = np.atleast_1d(np.asarray(s, dtype='int64')) - o
                if ii.size and (ii.min() < 0 or ii.max() >= d):
                    raise IllFormed(f'index {np.atleast_1d(s)[:4]} out of bounds for an axis of length {d}')
                sel.append(ii)
                keep.append(np.ndim(s) != 0)
        out = nd[np.ix_(*sel)]
        if drop_scalars:
            out = out.reshape([x for x, k in zip(out.shape, keep) if k], order='F')
            if out.ndim == 0:
                return out.reshape(-1)[0]
        elif all(not k for k in keep):
            return out.reshape(-1)[0]
        return out


def irange(a, b):
    return np.arange(int(a), int(b) + 1, dtype='int64')


# ====================================================================== Matlab / Octave
class MatlabD(Dialect):
    name = 'matlab'
    line_comments = ('%',)
    quotes = "'"
    doubled_quote_escape = True
    idchars_extra = '.'


MATLAB_TYPES = {'int8': 'i1', 'int16': 'i2', 'int32': 'i4', 'int64': 'i8', 'uint8': 'u1', 'uint16': 'u2', 'uint32': 'u4', 'uint64': 'u8',
                'single': 'f4', 'float32': 'f4', 'double': 'f8', 'float64': 'f8', 'schar': 'i1', 'uchar': 'u1'}
MATLAB_FMT = {'ieee-le': '<', 'l': '<', 'ieee-be': '>', 'b': '>', 'n': '<', 'native': '<'}


class MatlabP(Parser):
    def program(self):
        out = []
        while not self.at('eof'):
            if self.accept('nl') or self.accept('op', ';') or self.accept('op', ','):
                continue
            if self.at('id') and self.at_op('=', 1) and not self.at_op('=', 2):
                name = self.next()[1]
                self.next()
                out.append(('assign', name, self.expr()))
            else:
                out.append(('expr', self.expr()))
            if not (self.at('nl') or self.at_op(';') or self.at_op(',') or self.at('eof')):
                tk = self.peek()
                raise IllFormed(f'unexpected {tk[1]!r} after a statement (offset {tk[2]})')
        return out

    def primary_extra(self, tk):
        if tk[1] == '@':
            self.expect('op', '(')
            params = []
            while not self.accept('op', ')'):
                params.append(self.next()[1])
                self.accept('op', ',')
            return ('lambda', params, self.expr())
        return super().primary_extra(tk)


class MatlabI(Interp):
    lang = 'matlab'
    squeeze_compare = True
    D, P = MatlabD, MatlabP

    def run(self, src):
        for st in self.P(lex(src, self.D())).program():
            if st[0] == 'assign':
                self.assign(st[1], self.ev(st[2], self.env))
            else:
                self.ev(st[1], self.env)
        return self

    def call_function(self, name, *args):
        f = self.env.get(name)
        if not isinstance(f, Closure):
            raise IllFormed(f'{name} is not a function')
        loc = dict(f.env)
        loc.update(zip(f.params, args))
        return self.ev(f.body, loc)

    def ev(self, e, env):
        k = e[0]
        if k in ('num', 'str'):
            return e[1]
        if k == 'id':
            if e[1] in env:
                return env[e[1]]
            raise IllFormed(f'undefined variable or function {e[1]!r}')
        if k == 'neg':
            return -self.scalar(self.ev(e[1], env))
        if k == 'bin':
            return self.arith(e[1], self.ev(e[2], env), self.ev(e[3], env))
        if k == 'range':
            return irange(self.toint(self.ev(e[1], env)), self.toint(self.ev(e[2], env)))
        if k == 'matrix':
            return np.array([self.scalar(self.ev(x, env)) for x in e[1]])
        if k == 'lambda':
            return Closure(e[1], e[2], dict(env))
        if k == 'call':
            f = e[1]
            if f[0] != 'id':
                raise IllFormed('unsupported call target')
            if f[1] in env:
                target = env[f[1]]
                if isinstance(target, Closure):
                    loc = dict(target.env)
                    loc.update(zip(target.params, [self.ev(a[1], env) for a in e[2]]))
                    return self.ev(target.body, loc)
                return self.index(target, e[2], env)
            args = []
            for a in e[2]:
                if a[0] != 'pos':
                    raise IllFormed(f'invalid argument in call of {f[1]}')
                args.append(self.ev(a[1], env))
            return self.builtin(f[1], args)
        raise NotUnderstood(f'{self.lang}: expression node {k}')

    def index(self, arr, args, env):
        if not isinstance(arr, np.ndarray):
            raise IllFormed('indexing something that is not an array')
        subs = []
        for a in args:
            if a[0] == 'all':
                subs.append('all')
            elif a[0] == 'pos':
                v = self.ev(a[1], env)
                subs.append(v if isinstance(v, np.ndarray) else self.toint(v))
            else:
                raise IllFormed('invalid subscript')
        if arr.ndim == 1:
            arr = arr.reshape(-1, 1)
        if len(subs) == 1 and not isinstance(subs[0], str) and np.ndim(subs[0]) == 1:
            # linear indexing with a vector keeps the orientation of a vector source
            res = self.subscript(arr, subs)
            return res
        return self.subscript(arr, subs)

    def builtin(self, name, a):
        if name == 'fopen':
            mode = a[1] if len(a) > 1 else 'r'
            return self.open_file(a[0], mode if isinstance(mode, str) else 'r')
        if name == 'fclose':
            if not isinstance(a[0], FileH):
                raise IllFormed('fclose: invalid file identifier')
            a[0].closed = True
            return 0
        if name == 'fseek':
            if len(a) != 3 or not isinstance(a[0], FileH):
                raise IllFormed('fseek: invalid arguments')
            if a[2] not in ('bof', -1):
                raise NotUnderstood('fseek origin other than bof')
            a[0].pos = self.toint(a[1])
            return 0
        if name == 'fread':
            if not 3 <= len(a) <= 5:
                raise IllFormed(f'fread: {len(a)} arguments')
            fh, size, prec = a[0], a[1], a[2]
            if not isinstance(fh, FileH) or fh.closed:
                raise IllFormed('fread: invalid file identifier')
            rest = a[3:]
            skip, fmt = 0, 'n'
            if len(rest) == 2:
                skip, fmt = rest
            elif len(rest) == 1:
                if isinstance(rest[0], str):
                    fmt = rest[0]
                else:
                    skip = rest[0]
            if isinstance(skip, (str, np.ndarray)):
                raise IllFormed(f'fread: skip must be a numeric scalar, got {skip!r}')
            if not isinstance(fmt, str) or fmt not in MATLAB_FMT:
                raise IllFormed(f'fread: invalid machine format {fmt!r}')
            if not isinstance(prec, str):
                raise IllFormed('fread: precision must be a string')
            keep = prec.startswith('*')
            srct = prec.lstrip('*')
            if '=>' in srct:
                raise NotUnderstood('fread precision with =>')
            if srct not in MATLAB_TYPES:
                raise IllFormed(f'fread: unknown precision {prec!r}')
            if isinstance(size, np.ndarray):
                dims = [int(x) for x in size]
                if len(dims) != 2:
                    raise IllFormed(f'fread: size must be a scalar or [m n], got {dims}')
            else:
                dims = [self.toint(size), 1]
            n = int(np.prod(dims))
            dt = np.dtype(MATLAB_FMT[fmt] + MATLAB_TYPES[srct])
            vals = read_items(fh, dt, n, int(skip))
            if len(vals) != n:
                raise IllFormed(f'fread: only {len(vals)} of {n} values could be read')
            vals = vals.astype(dt.newbyteorder('=')) if keep else vals.astype('f8')
            return colarr(vals, dims)
        if name == 'reshape':
            arr, sz = a
            dims = [int(x) for x in np.atleast_1d(sz)]
            if int(np.prod(dims)) != np.size(arr):
                raise IllFormed(f'reshape: {np.size(arr)} elements into {dims}')
            return colarr(flatF(arr), dims)
        if name == 'complex':
            re_, im = a
            if np.shape(re_) != np.shape(im):
                raise IllFormed('complex: size mismatch')
            return (np.asarray(re_) + 1j * np.asarray(im)).astype('c8' if np.asarray(re_).dtype == np.float32 else 'c16')
        if name == 'half.typecast':
            arr = np.asarray(a[0])
            if arr.dtype != np.uint16:
                raise IllFormed('half.typecast needs a uint16 array')
            return colarr(flatF(arr).view('f2'), arr.shape)
        raise NotUnderstood(f'matlab builtin {name}')


# ====================================================================== Scilab
class ScilabD(Dialect):
    name = 'scilab'
    line_comments = ('//',)
    block_comments = (('/*', '*/'),)
    quotes = '"\''
    doubled_quote_escape = True


SCILAB_T = re.compile(r'^(u?)([csil])([lb]?)$')
SCILAB_F = re.compile(r'^([fd])([lb]?)$')
SCILAB_SIZE = {'c': 1, 's': 2, 'i': 4, 'l': 8}


class ScilabI(MatlabI):
    lang = 'scilab'
    D = ScilabD

    def call_function(self, name, *args):
        f = self.env.get(name)
        if not isinstance(f, Closure):
            raise IllFormed(f'{name} is not a function')
        loc = dict(self.env)          # Scilab functions see the variables of the calling environment
        loc.update(zip(f.params, args))
        sub = ScilabI(self.cwd)
        sub.env = loc
        sub.opened = self.opened
        sub.run(f.body)
        if f.kind not in loc:
            raise IllFormed(f'function {name} does not assign its output {f.kind}')
        return loc[f.kind]

    def ev(self, e, env):
        if e[0] == 'call' and e[1][0] == 'id' and isinstance(env.get(e[1][1]), Closure):
            args = [self.ev(a[1], env) for a in e[2]]
            saved, self.env = self.env, env
            try:
                return self.call_function(e[1][1], *args)
            finally:
                self.env = saved
        return super().ev(e, env)

    def builtin(self, name, a):
        if name == 'mopen':
            mode = a[1] if len(a) > 1 else 'rb'
            if not isinstance(mode, str):
                raise IllFormed('mopen: mode must be a string')
            return self.open_file(a[0], mode)
        if name == 'mclose':
            if not isinstance(a[0], FileH):
                raise IllFormed('mclose: invalid file descriptor')
            a[0].closed = True
            return 0
        if name in ('mget', 'mgeti'):
            if len(a) != 3:
                raise IllFormed(f'{name}: needs (n, type, fd)')
            n, t, fh = a
            if not isinstance(fh, FileH) or fh.closed:
                raise IllFormed(f'{name}: invalid file descriptor')
            if not isinstance(t, str):
                raise IllFormed(f'{name}: type must be a string')
            m = SCILAB_T.match(t)
            mf = SCILAB_F.match(t)
            if name == 'mgeti':
                if not m:
                    raise IllFormed(f'mgeti: invalid integer type {t!r}')
                dt = np.dtype(('<' if m.group(3) != 'b' else '>') + ('u' if m.group(1) else 'i') + str(SCILAB_SIZE[m.group(2)]))
            else:
                if mf:
                    dt = np.dtype(('<' if mf.group(2) != 'b' else '>') + {'f': 'f4', 'd': 'f8'}[mf.group(1)])
                elif m:
                    dt = np.dtype(('<' if m.group(3) != 'b' else '>') + ('u' if m.group(1) else 'i') + str(SCILAB_SIZE[m.group(2)]))
                else:
                    raise IllFormed(f'mget: invalid type {t!r}')
            n = self.toint(n)
            vals = read_items(fh, dt, n)
            if len(vals) != n:
                raise IllFormed(f'{name}: only {len(vals)} of {n} values could be read')
            vals = vals.astype(dt.newbyteorder('=')) if name == 'mgeti' else vals.astype('f8')
            return colarr(vals, [1, n])
        if name == 'matrix':
            arr, sz = a
            dims = [int(x) for x in np.atleast_1d(sz)]
            if int(np.prod(dims)) != np.size(arr):
                raise IllFormed(f'matrix: {np.size(arr)} elements into {dims}')
            return colarr(flatF(arr), dims)
        if name == 'squeeze':
            arr = np.asarray(a[0])
            dims = [d for d in arr.shape if d != 1]
            return colarr(flatF(arr), dims if dims else [1])
        if name == 'complex':
            re_, im = np.asarray(a[0]), np.asarray(a[1])
            if re_.shape != im.shape:
                raise IllFormed('complex: size mismatch')
            return re_.astype('f8') + 1j * im.astype('f8')
        if name == 'deff':
            if len(a) != 2 or not all(isinstance(x, str) for x in a):
                raise IllFormed('deff: needs two strings')
            m = re.match(r'^\s*(?:\[?\s*(\w+)\s*\]?\s*=\s*)?(\w+)\s*\(([^)]*)\)\s*$', a[0])
            if not m:
                raise IllFormed(f'deff: malformed header {a[0]!r}')
            outv, fname, params = m.group(1), m.group(2), [p.strip() for p in m.group(3).split(',') if p.strip()]
            self.env[fname] = Closure(params, a[1], None, kind=outv)
            return 0
        return super().builtin(name, a)


# ====================================================================== R
class RD(Dialect):
    name = 'R'
    line_comments = ('#',)
    quotes = '"\''


class RP(Parser):
    call_brackets = ('(',)
    index_brackets = ('[',)
    kwargs = True
    all_tokens = ()

    def program(self, until=None):
        out = []
        while not self.at('eof'):
            if self.accept('nl') or self.accept('op', ';'):
                continue
            if until and self.at_op(until):
                break
            out.append(self.statement())
        return out

    def statement(self):
        if self.at('id', 'if'):
            self.next()
            self.expect('op', '(')
            cond = self.expr()
            self.expect('op', ')')
            self.skipnl()
            then = self.block()
            save = self.i
            self.skipnl()
            if self.at('id', 'else'):
                self.next()
                self.skipnl()
                return ('if', cond, then, self.block())
            self.i = save
            return ('if', cond, then, [])
        if self.at('id', 'return'):
            self.next()
            self.expect('op', '(')
            e = self.expr()
            self.expect('op', ')')
            return ('return', e)
        if self.at('id') and (self.at_op('<-', 1) or (self.at_op('=', 1) and not self.at_op('=', 2))):
            name = self.next()[1]
            self.next()
            self.skipnl()
            return ('assign', name, self.expr())
        return ('expr', self.expr())

    def block(self):
        if self.accept('op', '{'):
            body = self.program(until='}')
            self.expect('op', '}')
            return body
        return [self.statement()]

    def primary(self):
        if self.at('id', 'function'):
            self.next()
            self.expect('op', '(')
            params = []
            while not self.accept('op', ')'):
                params.append(self.next()[1])
                self.accept('op', ',')
            self.skipnl()
            return ('lambda', params, self.block())
        return super().primary()


class _Return(Exception):
    def __init__(self, v):
        self.v = v


class RI(Interp):
    lang = 'R'
    squeeze_compare = True

    def run(self, src):
        self.exec_block(RP(lex(src, RD())).program(), self.env)
        return self

    def exec_block(self, stmts, env):
        v = None
        for st in stmts:
            k = st[0]
            if k == 'assign':
                self.assign(st[1], self.ev(st[2], env), env)
            elif k == 'expr':
                v = self.ev(st[1], env)
            elif k == 'return':
                raise _Return(self.ev(st[1], env))
            elif k == 'if':
                c = self.ev(st[1], env)
                if isinstance(c, np.ndarray):
                    raise IllFormed('if: condition of length != 1')
                v = self.exec_block(st[2] if c else st[3], env)
        return v

    def call_function(self, name, *args):
        f = self.env.get(name)
        if not isinstance(f, Closure):
            raise IllFormed(f'{name} is not a function')
        loc = _Scope(self.env)
        for p, a in zip(f.params, args):
            loc[p] = a
        try:
            return self.exec_block(f.body, loc)
        except _Return as r:
            return r.v

    def ev(self, e, env):
        k = e[0]
        if k in ('num', 'str'):
            return e[1]
        if k == 'id':
            if e[1] in ('NULL',):
                return None
            if e[1] in ('TRUE', 'FALSE'):
                return e[1] == 'TRUE'
            if e[1] in env:
                return env[e[1]]
            raise IllFormed(f'object {e[1]!r} not found')
        if k == 'neg':
            return -self.scalar(self.ev(e[1], env))
        if k == 'bin':
            return self.arith(e[1], self.ev(e[2], env), self.ev(e[3], env))
        if k == 'cmp':
            return self.compare(e[1], self.ev(e[2], env), self.ev(e[3], env))
        if k == 'range':
            a, b = self.toint(self.ev(e[1], env)), self.toint(self.ev(e[2], env))
            return np.arange(a, b + 1) if a <= b else np.arange(a, b - 1, -1)     # a:b descends when a > b
        if k == 'lambda':
            return Closure(e[1], e[2], env)
        if k == 'index':
            arr = self.ev(e[1], env)
            if not isinstance(arr, np.ndarray):
                raise IllFormed('subsetting something that is not a vector/array')
            subs = []
            for a in e[2]:
                if a[0] == 'empty':
                    subs.append('all')
                elif a[0] == 'pos':
                    v = self.ev(a[1], env)
                    v = v if isinstance(v, np.ndarray) else self.toint(v)
                    if np.any(np.asarray(v) <= 0):
                        raise IllFormed(f'zero or negative subscript {v}')
                    subs.append(v)
                else:
                    raise IllFormed('invalid subscript')
            if len(subs) != arr.ndim and len(subs) != 1:
                raise IllFormed(f'incorrect number of dimensions: {len(subs)} subscripts for dims {arr.shape}')
            return self.subscript(arr, subs, fold=False, drop_scalars=True)
        if k == 'call':
            f = e[1]
            if f[0] != 'id':
                raise IllFormed('unsupported call target')
            if isinstance(env.get(f[1]) if f[1] in env else None, Closure):
                args = [self.ev(a[1], env) for a in e[2] if a[0] == 'pos']
                return self.call_function(f[1], *args)
            pos, kw = [], {}
            for a in e[2]:
                if a[0] == 'pos':
                    pos.append(self.ev(a[1], env))
                elif a[0] == 'kw':
                    kw[a[1]] = self.ev(a[2], env)
                else:
                    raise IllFormed(f'empty argument in call of {f[1]}')
            return self.builtin(f[1], pos, kw)
        raise NotUnderstood(f'R: expression node {k}')

    def builtin(self, name, pos, kw):
        if name == 'file':
            path = pos[0] if pos else kw.get('description')
            mode = pos[1] if len(pos) > 1 else kw.get('open', 'rb')
            return self.open_file(path, mode)
        if name == 'close':
            fh = pos[0] if pos else kw.get('con')
            if not isinstance(fh, FileH):
                raise IllFormed('close: not a connection')
            fh.closed = True
            return None
        if name in ('integer', 'numeric', 'complex', 'double'):
            if pos or kw:
                n = self.toint(pos[0] if pos else list(kw.values())[0])
            else:
                n = 0
            return ('mode', {'double': 'numeric'}.get(name, name)) if n == 0 else np.zeros(n)
        if name == 'c':
            if not pos:
                return None
            return np.array([self.scalar(x) for x in pos])
        if name == 'readBin':
            names = ['con', 'what', 'n', 'size', 'signed', 'endian']
            args = dict(zip(names, pos))
            args.update(kw)
            unknown = set(args) - set(names)
            if unknown:
                raise IllFormed(f'readBin: unused argument {sorted(unknown)}')
            fh = args.get('con')
            if not isinstance(fh, FileH) or fh.closed:
                raise IllFormed('readBin: invalid connection')
            what = args.get('what')
            if isinstance(what, str):
                what = ('mode', what)
            if not (isinstance(what, tuple) and what[0] == 'mode'):
                raise IllFormed(f'readBin: invalid what {what!r}')
            mode = what[1]
            n = self.toint(args.get('n', 1))
            size = args.get('size')
            size = None if size is None else self.toint(size)
            signed = args.get('signed', True)
            endian = args.get('endian', 'little')
            if endian not in ('little', 'big', 'swap'):
                raise IllFormed(f'readBin: invalid endian {endian!r}')
            bo = '>' if endian in ('big', 'swap') else '<'
            if mode == 'integer':
                size = 4 if size is None else size
                if size not in (1, 2, 4, 8):
                    raise IllFormed(f'readBin: size {size} is unknown for integers')
                if signed is False and size > 2:
                    raise IllFormed('readBin: signed = FALSE is only valid for integers of sizes 1 and 2')
                dt = np.dtype(bo + ('u' if signed is False else 'i') + str(size))
                vals = read_items(fh, dt, n).astype('int64')
                if vals.size and (vals.max() > 2147483647 or vals.min() < -2147483647):
                    raise Indeterminate('readBin: value outside the 32-bit integer range of R (NA)')
                return vals
            if mode == 'numeric':
                size = 8 if size is None else size
                if size not in (4, 8):
                    raise IllFormed(f'readBin: size {size} is unknown for numerics')
                return read_items(fh, np.dtype(bo + 'f' + str(size)), n).astype('f8')
            if mode == 'complex':
                if size not in (None, 16):
                    raise IllFormed('readBin: size changing is not supported for complex vectors')
                return read_items(fh, np.dtype(bo + 'c16'), n).astype('c16')
            raise NotUnderstood(f'readBin what={mode}')
        if name == 'array':
            names = ['data', 'dim', 'dimnames']
            args = dict(zip(names, pos))
            args.update(kw)
            data = args.get('data')
            dim = args.get('dim')
            if isinstance(data, tuple) and data[0] == 'mode':
                data = np.zeros(0, dtype={'integer': 'int64', 'numeric': 'f8', 'complex': 'c16'}[data[1]])
            dims = [int(x) for x in np.atleast_1d(dim)]
            total = int(np.prod(dims))
            flat = flatF(data)
            if flat.size != total:
                if flat.size == 0:
                    if total != 0:
                        raise IllFormed('array: cannot fill from zero-length data')
                else:
                    flat = np.resize(flat, total)        # R recycles / truncates
            return colarr(flat, dims)
        raise NotUnderstood(f'R builtin {name}')


class _Scope(dict):
    """Function-local scope with lexical lookup in the global environment."""

    def __init__(self, parent):
        super().__init__()
        self.parent = parent

    def __contains__(self, k):
        return dict.__contains__(self, k) or k in self.parent

    def __getitem__(self, k):
        if dict.__contains__(self, k):
            return dict.__getitem__(self, k)
        return self.parent[k]

    def get(self, k, d=None):
        return self[k] if k in self else d


# ====================================================================== Julia
class JuliaD(Dialect):
    name = 'julia'
    line_comments = ('#',)
    quotes = '"'
    idchars_extra = '!'


JULIA_T = {'Int8': 'i1', 'Int16': 'i2', 'Int32': 'i4', 'Int64': 'i8', 'UInt8': 'u1', 'UInt16': 'u2', 'UInt32': 'u4', 'UInt64': 'u8',
           'Float16': 'f2', 'Float32': 'f4', 'Float64': 'f8', 'Complex{Float32}': 'c8', 'Complex{Float64}': 'c16',
           'ComplexF32': 'c8', 'ComplexF64': 'c16'}


class JuliaP(Parser):
    call_brackets = ('(',)
    index_brackets = ('[',)

    def program(self, until=None):
        out = []
        while not self.at('eof'):
            if self.accept('nl') or self.accept('op', ';'):
                continue
            if until and self.at('id', until):
                break
            out.append(self.statement())
            if not (self.at('nl') or self.at_op(';') or self.at('eof') or (until and self.at('id', until))):
                tk = self.peek()
                raise IllFormed(f'unexpected {tk[1]!r} after a statement (offset {tk[2]})')
        return out

    def statement(self):
        if self.at('id', 'function'):
            self.next()
            name = self.next()[1]
            self.expect('op', '(')
            params = []
            while not self.accept('op', ')'):
                params.append(self.next()[1])
                self.accept('op', ',')
            body = self.program(until='end')
            self.expect('id', 'end')
            return ('assign', name, ('lambda', params, body))
        if self.at('id', 'using') and self.peek(1)[0] == 'id':
            self.next()
            mods = [self.next()[1]]
            while self.accept('op', ','):
                mods.append(self.next()[1])
            return ('using', mods)
        if self.at('id') and self.at_op('=', 1) and not self.at_op('=', 2):
            name = self.next()[1]
            self.next()
            return ('assign', name, self.expr())
        return ('expr', self.expr())

    def postfix_extra(self, a):
        if self.at_op('.') and a[0] == 'id' and self.peek(1)[0] == 'id':
            self.next()                       # Module.name: a qualified name
            return ('id', a[1] + '.' + self.next()[1])
        if self.at_op('{') and a[0] in ('id', 'tapp'):
            self.next()
            targs = []
            while True:
                targs.append(self.expr())
                if self.accept('op', '}'):
                    break
                self.expect('op', ',')
            return ('tapp', a, targs)
        return None


def julia_typename(e):
    if e[0] == 'id':
        return e[1]
    if e[0] == 'num' and float(e[1]).is_integer():       # the N of Array{T,N}
        return str(int(e[1]))
    if e[0] == 'tapp':
        return julia_typename(e[1]) + '{' + ','.join(julia_typename(x) for x in e[2]) + '}'
    raise IllFormed('type expected')


class JuliaI(Interp):
    lang = 'julia'

    def __init__(self, cwd, override=None, version=1):
        super().__init__(cwd, override)
        self.version = version

    def run(self, src):
        self.exec_block(JuliaP(lex(src, JuliaD())).program(), self.env)
        return self

    def exec_block(self, stmts, env):
        v = None
        for st in stmts:
            if st[0] == 'assign':
                v = self.ev(st[2], env)
                self.assign(st[1], v, env)
            elif st[0] == 'using':
                # standard-library modules only (no package can be installed where the snippet is meant to run out of the box)
                for m_ in st[1]:
                    if m_ not in ('Mmap',):
                        raise NotUnderstood(f'julia: using {m_}')
                    self.modules = getattr(self, 'modules', set()) | {m_}
                v = None
            else:
                v = self.ev(st[1], env)
        return v

    def call_function(self, name, *args):
        f = self.env.get(name)
        if not isinstance(f, Closure):
            raise IllFormed(f'{name} is not a function')
        loc = _Scope(self.env)
        for p, a in zip(f.params, args):
            loc[p] = a
        return self.exec_block(f.body, loc)

    def ev(self, e, env):
        k = e[0]
        if k in ('num', 'str'):
            return e[1]
        if k == 'id':
            if e[1] in env:
                return env[e[1]]
            if e[1] in JULIA_T or e[1] in ('undef', 'ltoh', 'ntoh', 'hton', 'htol', 'bswap'):
                return ('sym', e[1])
            raise IllFormed(f'UndefVarError: {e[1]}')
        if k == 'tapp':
            return ('sym', julia_typename(e))
        if k == 'tuple':
            return ('tuple', [self.toint(self.ev(x, env)) for x in e[1]])
        if k == 'neg':
            return -self.scalar(self.ev(e[1], env))
        if k == 'bin':
            return self.arith(e[1], self.ev(e[2], env), self.ev(e[3], env))
        if k == 'range':
            return irange(self.toint(self.ev(e[1], env)), self.toint(self.ev(e[2], env)))
        if k == 'lambda':
            return Closure(e[1], e[2], env)
        if k == 'index':
            arr = self.ev(e[1], env)
            if not isinstance(arr, np.ndarray):
                raise IllFormed('indexing something that is not an array')
            subs = []
            for a in e[2]:
                if a[0] == 'all':
                    subs.append('all')
                elif a[0] == 'pos':
                    v = self.ev(a[1], env)
                    subs.append(v if isinstance(v, np.ndarray) else self.toint(v))
                else:
                    raise IllFormed('invalid subscript')
            if len(subs) != arr.ndim and len(subs) != 1:
                raise IllFormed(f'BoundsError: {len(subs)} indices for an array with dims {arr.shape}')
            return self.subscript(arr, subs, fold=False, drop_scalars=True)
        if k == 'call':
            f = e[1]
            if f[0] == 'id' and isinstance(env.get(f[1]) if f[1] in env else None, Closure):
                return self.call_function(f[1], *[self.ev(a[1], env) for a in e[2]])
            args = []
            for a in e[2]:
                if a[0] != 'pos':
                    raise IllFormed('invalid argument')
                args.append(self.ev(a[1], env))
            if f[0] == 'tapp' or (f[0] == 'id' and f[1] in ('Array', 'Vector', 'Matrix')):
                tn = julia_typename(f)
                m = re.match(r'^Array\{(.+?)(?:,\s*\d+)?\}$', tn)
                if not m or m.group(1) not in JULIA_T:
                    raise IllFormed(f'unknown array type {tn}')
                if not args or args[0] != ('sym', 'undef'):
                    raise IllFormed('Array constructor: first argument must be undef')
                dims = [self.toint(x) for x in args[1:]]
                if len(args) == 2 and isinstance(args[1], tuple) and args[1][0] == 'tuple':
                    dims = args[1][1]
                return ('uninit', m.group(1), dims)
            if f[0] != 'id':
                raise IllFormed('unsupported call target')
            return self.builtin(f[1], args)
        raise NotUnderstood(f'julia: expression node {k}')

    def builtin(self, name, a):
        if name == 'open':
            mode = a[1] if len(a) > 1 else 'r'
            return self.open_file(a[0], mode)
        if name == 'close':
            if not isinstance(a[0], FileH):
                raise IllFormed('close: not a stream')
            a[0].closed = True
            return None
        if name == 'read':
            if len(a) != 3:
                raise IllFormed('read(io, T, dims): wrong number of arguments' if self.version == 0 else
                                'MethodError: read(io, T, dims) does not exist in Julia >= 1.0')
            if self.version != 0:
                raise IllFormed('MethodError: read(io, T, dims) was removed in Julia 1.0')
            fh, t, dims = a
            if not isinstance(fh, FileH) or fh.closed:
                raise IllFormed('read: invalid stream')
            if not (isinstance(t, tuple) and t[0] == 'sym' and t[1] in JULIA_T):
                raise IllFormed(f'read: invalid element type {t!r}')
            dims = dims[1] if isinstance(dims, tuple) else [self.toint(dims)]
            n = int(np.prod(dims))
            vals = read_items(fh, np.dtype('<' + JULIA_T[t[1]]), n)
            if len(vals) != n:
                raise IllFormed(f'EOFError: read {len(vals)} of {n} elements')
            return colarr(vals, dims)
        if name == 'Mmap.mmap':
            # Mmap.mmap(io, Array{T,N}, dims): maps the file from the stream's position as an Array{T,N} of the given dims.
            # The elements are taken as they are in the file, in the HOST's byte order - there is no conversion
            if 'Mmap' not in getattr(self, 'modules', set()):
                raise IllFormed('UndefVarError: Mmap (the module has not been loaded with `using Mmap`)')
            if len(a) != 3:
                raise IllFormed('Mmap.mmap(io, Array{T,N}, dims): wrong number of arguments')
            fh, t, dims = a
            if not isinstance(fh, FileH) or fh.closed:
                raise IllFormed('Mmap.mmap: invalid stream')
            m_ = re.match(r'^Array\{(.+?)(?:,\s*(\d+))?\}$', t[1]) if isinstance(t, tuple) and t[0] == 'sym' else None
            if not m_ or m_.group(1) not in JULIA_T:
                raise IllFormed(f'Mmap.mmap: invalid array type {t!r}')
            dims = dims[1] if isinstance(dims, tuple) else [self.toint(dims)]
            if m_.group(2) and int(m_.group(2)) != len(dims):
                raise IllFormed(f'Mmap.mmap: Array{{T,{m_.group(2)}}} with {len(dims)} dimensions')
            n = int(np.prod(dims))
            vals = read_items(fh, np.dtype('<' + JULIA_T[m_.group(1)]), n)
            if len(vals) != n:
                raise IllFormed(f'ArgumentError: requested size is larger than the file ({len(vals)} of {n} elements)')
            return colarr(vals, dims)
        if name == 'read!':
            if self.version == 0:
                raise NotUnderstood('read! in Julia 0.x code')
            fh, tgt = a
            if not isinstance(fh, FileH) or fh.closed:
                raise IllFormed('read!: invalid stream')
            if not (isinstance(tgt, tuple) and tgt[0] == 'uninit'):
                raise IllFormed('read!: target is not an array')
            n = int(np.prod(tgt[2]))
            vals = read_items(fh, np.dtype('<' + JULIA_T[tgt[1]]), n)
            if len(vals) != n:
                raise IllFormed(f'EOFError: read {len(vals)} of {n} elements')
            return colarr(vals, tgt[2])
        if name == 'map':
            fn, arr = a
            if not (isinstance(fn, tuple) and fn[0] == 'sym' and fn[1] in ('ltoh', 'ntoh', 'hton', 'htol', 'bswap')):
                raise NotUnderstood(f'map with {fn!r}')
            arr = np.asarray(arr)
            if fn[1] in ('ltoh', 'htol'):
                return arr           # host is little-endian here: identity
            return colarr(flatF(arr).byteswap(), arr.shape)
        if name == 'reinterpret':
            t, arr = a
            if not (isinstance(t, tuple) and t[0] == 'sym' and t[1] in JULIA_T):
                raise IllFormed(f'reinterpret: invalid type {t!r}')
            arr = np.asarray(arr)
            newdt = np.dtype(JULIA_T[t[1]])
            dims = list(arr.shape)
            nbytes0 = dims[0] * arr.dtype.itemsize
            if nbytes0 % newdt.itemsize:
                raise IllFormed(f'ArgumentError: cannot reinterpret an array whose first dimension has {dims[0]} elements of '
                                f'{arr.dtype.itemsize} bytes as elements of {newdt.itemsize} bytes')
            dims[0] = nbytes0 // newdt.itemsize
            return colarr(flatF(arr).view(newdt), dims)
        raise NotUnderstood(f'julia builtin {name}')


# ====================================================================== IDL / GDL
class IDLD(Dialect):
    name = 'idl'
    line_comments = (';',)
    quotes = '"\''


IDL_T = {1: 'u1', 2: 'i2', 3: 'i4', 4: 'f4', 5: 'f8', 6: 'c8', 9: 'c16', 12: 'u2', 13: 'u4', 14: 'i8', 15: 'u8'}


class IDLP(Parser):
    call_brackets = ('(',)
    index_brackets = ('[',)
    kwargs = True
    all_tokens = ('*',)
    cmp_words = ('EQ', 'NE', 'GT', 'LT', 'GE', 'LE', 'eq')

    def star_is_all(self):
        n = self.peek(1)
        return n[0] == 'op' and n[1] in (',', ']')

    def program(self):
        out = []
        while not self.at('eof'):
            if self.accept('nl'):
                continue
            out.append(self.statement())
            if not (self.at('nl') or self.at('eof')):
                tk = self.peek()
                raise IllFormed(f'unexpected {tk[1]!r} after a statement (offset {tk[2]})')
        return out

    def statement(self, inner=False):
        if self.at('id') and self.peek()[1].upper() == 'IF':
            self.next()
            cond = self.expr()
            if not (self.at('id') and self.peek()[1].upper() == 'THEN'):
                raise IllFormed('IF without THEN')
            self.next()
            then = self.statement(True)
            els = None
            if self.at('id') and self.peek()[1].upper() == 'ELSE':
                self.next()
                els = self.statement(True)
            return ('if', cond, then, els)
        if self.at('id') and self.at_op('=', 1):
            name = self.next()[1]
            self.next()
            return ('assign', name, self.expr())
        return ('expr', self.expr())


class IDLI(Interp):
    lang = 'idl'
    squeeze_compare = True
    index_origin = 0

    def run(self, src):
        for st in IDLP(lex(src, IDLD())).program():
            self.exec(st)
        return self

    def exec(self, st):
        if st[0] == 'assign':
            self.assign(st[1], self.ev(st[2]))
        elif st[0] == 'if':
            c = self.ev(st[1])
            if c:
                self.exec(st[2])
            elif st[3] is not None:
                self.exec(st[3])
        else:
            self.ev(st[1])

    def ev(self, e):
        env = self.env
        k = e[0]
        if k in ('num', 'str'):
            return e[1]
        if k == 'id':
            key = e[1]
            if key in env:
                return env[key]
            raise IllFormed(f'variable is undefined: {key}')
        if k == 'matrix':
            if not e[1]:
                return None            # !NULL
            return np.array([self.scalar(self.ev(x)) for x in e[1]])
        if k == 'neg':
            return -self.scalar(self.ev(e[1]))
        if k == 'bin':
            return self.arith(e[1], self.ev(e[2]), self.ev(e[3]))
        if k == 'cmp':
            op = e[1].upper()
            a, b = self.scalar(self.ev(e[2])), self.scalar(self.ev(e[3]))
            return {'EQ': a == b, 'NE': a != b, 'GT': a > b, 'LT': a < b, 'GE': a >= b, 'LE': a <= b}[op]
        if k == 'range':
            a, b = self.toint(self.ev(e[1])), self.toint(self.ev(e[2]))
            if b < a:
                raise IllFormed(f'illegal subscript range {a}:{b}')
            return irange(a, b)
        if k == 'index':
            arr = self.ev(e[1])
            if not isinstance(arr, np.ndarray):
                raise IllFormed('subscripting something that is not an array')
            subs = []
            for a in e[2]:
                if a[0] == 'all':
                    subs.append('all')
                elif a[0] == 'pos':
                    v = self.ev(a[1])
                    subs.append(v if isinstance(v, np.ndarray) else self.toint(v))
                else:
                    raise IllFormed('invalid subscript')
            if len(subs) > max(arr.ndim, 1) and not all((not isinstance(s, str)) and np.all(np.asarray(s) == 0) for s in subs[arr.ndim:]):
                raise IllFormed(f'too many subscripts ({len(subs)}) for dims {arr.shape}')
            if len(subs) < arr.ndim and len(subs) != 1:
                raise IllFormed(f'{len(subs)} subscripts for dims {arr.shape}')
            return self.subscript(arr, subs, fold=False, drop_scalars=False)
        if k == 'call':
            f = e[1]
            if f[0] != 'id':
                raise IllFormed('unsupported call target')
            pos, kw = [], {}
            for a in e[2]:
                if a[0] == 'pos':
                    pos.append(self.ev(a[1]))
                elif a[0] == 'kw':
                    kw[a[1].lower()] = self.ev(a[2])
                else:
                    raise IllFormed('invalid argument')
            return self.builtin(f[1].lower(), pos, kw)
        raise NotUnderstood(f'idl: expression node {k}')

    def builtin(self, name, pos, kw):
        if name == 'read_binary':
            if len(pos) != 1:
                raise IllFormed('read_binary: one file name expected')
            unknown = set(kw) - {'data_type', 'data_dims', 'endian', 'data_start'}
            if unknown:
                raise IllFormed(f'read_binary: unknown keyword {sorted(unknown)}')
            fh = self.open_file(pos[0], 'r')
            code = self.toint(kw.get('data_type', 1))
            if code not in IDL_T:
                raise IllFormed(f'read_binary: invalid data_type {code}')
            endian = kw.get('endian', 'native')
            if endian not in ('little', 'big', 'native'):
                raise IllFormed(f'read_binary: invalid endian {endian!r}')
            dt = np.dtype(('>' if endian == 'big' else '<') + IDL_T[code])
            fh.pos = self.toint(kw.get('data_start', 0))
            dims = kw.get('data_dims')
            if dims is None:
                vals = read_items(fh, dt, None)
                return colarr(vals, [len(vals)])
            dims = [int(x) for x in np.atleast_1d(dims)]
            if len(dims) > 8:
                raise IllFormed('read_binary: more than 8 dimensions')
            n = int(np.prod(dims))
            vals = read_items(fh, dt, n)
            if len(vals) != n:
                raise IllFormed(f'read_binary: file holds {len(vals)} of the {n} requested elements')
            return colarr(vals, dims)
        raise NotUnderstood(f'idl builtin {name}')


# ====================================================================== Mathematica
class MmaD(Dialect):
    name = 'mathematica'
    block_comments = (('(*', '*)'),)
    quotes = '"'


MMA_T = {'Integer8': 'i1', 'Integer16': 'i2', 'Integer32': 'i4', 'Integer64': 'i8', 'UnsignedInteger8': 'u1', 'UnsignedInteger16': 'u2',
         'UnsignedInteger32': 'u4', 'UnsignedInteger64': 'u8', 'Real32': 'f4', 'Real64': 'f8', 'Complex64': 'c8', 'Complex128': 'c16',
         'Byte': 'u1'}


class MmaP(Parser):
    call_brackets = ()
    range_op = ';;'
    all_tokens = ()

    def program(self):
        out = []
        while not self.at('eof'):
            if self.accept('nl') or self.accept('op', ';'):
                continue
            out.append(self.statement())
            if not (self.at('nl') or self.at_op(';') or self.at('eof')):
                tk = self.peek()
                raise IllFormed(f'unexpected {tk[1]!r} after an expression (offset {tk[2]})')
        return out

    def statement(self):
        start = self.i
        # function definition: name[pattern...] := body
        if self.at('id') and self.at_op('[', 1):
            j = self.i + 2
            depth = 1
            while depth and self.t[j][0] != 'eof':
                if self.t[j][:2] == ('op', '['):
                    depth += 1
                elif self.t[j][:2] == ('op', ']'):
                    depth -= 1
                j += 1
            if self.t[j][:2] == ('op', ':='):
                name = self.next()[1]
                self.next()
                params = []
                while not self.at_op(']'):
                    tk = self.next()
                    if tk[0] == 'id':
                        pname = tk[1]
                        if pname.endswith('_'):
                            pname = pname[:-1]
                        else:
                            pm = re.match(r'^(\w+?)_+\w*$', pname)
                            if pm:
                                pname = pm.group(1)
                        # optional ?Test
                        if self.at_op('_?'):
                            self.next()
                            self.next()
                        elif self.at_op('?'):
                            self.next()
                            self.next()
                        params.append(pname.rstrip('_'))
                    self.accept('op', ',')
                self.expect('op', ']')
                self.expect('op', ':=')
                self.skipnl()
                return ('assign', name, ('lambda', params, self.compound()))
        self.i = start
        e = self.compound_item()
        return ('expr', e)

    def compound_item(self):
        a = self.expr()
        if self.at_op('=') and not self.at_op('=', 1):
            if a[0] != 'id':
                raise IllFormed('assignment to a non-symbol')
            self.next()
            self.skipnl()
            return ('set', a[1], self.expr())
        return a

    def compound(self):
        """e1; e2; ...; en  (value of the last one)"""
        items = [self.compound_item()]
        while True:
            save = self.i
            self.skipnl()
            if self.accept('op', ';'):
                self.skipnl()
                if self.at_op(']') or self.at('eof'):
                    items.append(('null',))
                    break
                items.append(self.compound_item())
            else:
                self.i = save
                break
        return ('compound', items) if len(items) > 1 else items[0]

    def postfix_extra(self, a):
        if self.at_op('[') and self.at_op('[', 1):
            self.next()
            self.next()
            args = []
            while True:
                self.skipnl()
                if self.at('id', 'All'):
                    self.next()
                    args.append(('all',))
                else:
                    args.append(('pos', self.expr()))
                self.skipnl()
                if self.accept('op', ','):
                    continue
                break
            self.expect('op', ']')
            self.expect('op', ']')
            return ('index', a, args)
        if self.at_op('['):
            self.next()
            args = []
            self.skipnl()
            if not self.at_op(']'):
                while True:
                    self.skipnl()
                    x = self.compound()
                    if self.at_op('->'):
                        self.next()
                        x = ('rule', x, self.expr())
                    args.append(('pos', x))
                    self.skipnl()
                    if not self.accept('op', ','):
                        break
            self.skipnl()
            self.expect('op', ']')
            return ('call', a, args)
        return None


class MmaI(Interp):
    lang = 'mathematica'
    colmajor = False

    def run(self, src):
        for st in MmaP(lex(src, MmaD())).program():
            if st[0] == 'assign':
                self.assign(st[1], Closure(st[2][1], st[2][2], None))
            else:
                self.ev(st[1], self.env)
        return self

    def call_function(self, name, *args):
        f = self.env.get(name)
        if not isinstance(f, Closure):
            raise IllFormed(f'{name} has no definition')
        if not all(isinstance(a, int) and not isinstance(a, bool) for a in args):
            return ('unevaluated', name)       # pattern k_?IntegerQ does not match
        return self.ev(self.substitute(f.body, dict(zip(f.params, args))), self.env)

    def substitute(self, e, m):
        if isinstance(e, tuple):
            if e[0] == 'id' and e[1] in m:
                v = m[e[1]]
                return ('num', v)
            return tuple(self.substitute(x, m) for x in e)
        if isinstance(e, list):
            return [self.substitute(x, m) for x in e]
        return e

    def ev(self, e, env):
        k = e[0]
        if k in ('num', 'str'):
            return e[1]
        if k == 'null':
            return None
        if k == 'id':
            if e[1] in env:
                return env[e[1]]
            return ('sym', e[1])
        if k == 'list':
            vals = [self.ev(x, env) for x in e[1]]
            if all(isinstance(v, (int, float)) and not isinstance(v, bool) for v in vals):
                return np.array(vals)
            return ('symlist', vals)
        if k == 'neg':
            return -self.scalar(self.ev(e[1], env))
        if k == 'bin':
            return self.arith(e[1], self.ev(e[2], env), self.ev(e[3], env))
        if k == 'set':
            v = self.ev(e[2], env)
            self.assign(e[1], v, env)
            return v
        if k == 'compound':
            v = None
            for x in e[1]:
                v = self.ev(x, env)
            return v
        if k == 'range':
            return ('span', self.toint(self.ev(e[1], env)), self.toint(self.ev(e[2], env)))
        if k == 'index':
            arr = self.ev(e[1], env)
            if not isinstance(arr, np.ndarray):
                raise IllFormed(f'Part: {arr!r} is not a list')
            subs = []
            for a in e[2]:
                if a[0] == 'all':
                    subs.append(slice(None))
                    continue
                v = self.ev(a[1], env)
                if isinstance(v, tuple) and v[0] == 'span':
                    a0, b0 = v[1], v[2]
                    if a0 < 1 or b0 > arr.shape[len(subs)] or a0 > b0 + 1:
                        raise IllFormed(f'Part: cannot take positions {a0} through {b0}')
                    subs.append(slice(a0 - 1, b0))
                else:
                    i = self.toint(v)
                    if i == 0 or abs(i) > arr.shape[len(subs)]:
                        raise IllFormed(f'Part: part {i} does not exist')
                    subs.append(i - 1 if i > 0 else i)
                if len(subs) > arr.ndim:
                    raise IllFormed('Part: specification is longer than the depth of the list')
            res = arr[tuple(subs)]
            return res if isinstance(res, np.ndarray) and res.ndim else (res.item() if isinstance(res, (np.generic, np.ndarray)) else res)
        if k == 'call':
            f = e[1]
            if f[0] != 'id':
                raise IllFormed('unsupported head')
            if isinstance(env.get(f[1]), Closure):
                return self.call_function(f[1], *[self.ev(a[1], env) for a in e[2]])
            return self.builtin(f[1], e[2], env)
        raise NotUnderstood(f'mathematica: expression node {k}')

    def builtin(self, name, args, env):
        if name == 'Module':
            if len(args) != 2 or args[0][1][0] != 'list':
                raise IllFormed('Module: needs {locals} and a body')
            loc = _Scope(env)
            for v in args[0][1][1]:
                if v[0] == 'id':
                    loc[v[1]] = ('sym', v[1])
                elif v[0] == 'set':
                    loc[v[1]] = self.ev(v[2], env)
                else:
                    raise IllFormed('Module: invalid local variable specification')
            locals_ = set(dict.keys(loc))

            class _Env(_Scope):
                pass
            # assignments to non-local symbols go to the global environment
            return self._ev_in(args[1][1], loc, locals_)
        vals = []
        opts = {}
        for a in args:
            x = a[1]
            if x[0] == 'rule':
                if x[1][0] != 'id':
                    raise IllFormed('option name expected')
                opts[x[1][1]] = self.ev(x[2], env)
            else:
                vals.append(self.ev(x, env))
        if name == 'BinaryReadList':
            if not 1 <= len(vals) <= 3:
                raise IllFormed('BinaryReadList: wrong number of arguments')
            unknown = set(opts) - {'ByteOrdering'}
            if unknown:
                raise IllFormed(f'BinaryReadList: unknown option {sorted(unknown)}')
            t = vals[1] if len(vals) > 1 else 'Byte'
            if not isinstance(t, str) or t not in MMA_T:
                raise IllFormed(f'BinaryReadList: {t!r} is not a valid type')
            bo = opts.get('ByteOrdering', -1)
            if bo not in (1, -1):
                raise IllFormed(f'ByteOrdering -> {bo!r} is not +1 or -1')
            fh = self.open_file(vals[0], 'r')
            cnt = self.toint(vals[2]) if len(vals) > 2 else None
            return read_items(fh, np.dtype(('>' if bo == 1 else '<') + MMA_T[t]), cnt)
        if name == 'ArrayReshape':
            lst, dims = vals
            dims = [int(x) for x in np.atleast_1d(dims)]
            flat = np.asarray(lst).ravel()
            total = int(np.prod(dims))
            if flat.size < total:
                flat = np.concatenate([flat, np.zeros(total - flat.size, flat.dtype)])      # pads with zeros
            return flat[:total].reshape(dims)
        raise NotUnderstood(f'mathematica builtin {name}')

    def _ev_in(self, body, loc, locals_):
        interp = self

        class Env(dict):
            def __contains__(s, k):
                return k in loc or k in interp.env

            def __getitem__(s, k):
                return loc[k] if k in locals_ else interp.env[k]

            def __setitem__(s, k, v):
                if k in locals_:
                    loc[k] = v
                else:
                    interp.env[k] = v

            def get(s, k, d=None):
                return s[k] if k in s else d
        return self.ev(body, Env())


# ====================================================================== Maple
class MapleD(Dialect):
    name = 'maple'
    line_comments = ('#',)
    quotes = '"'


class MapleP(Parser):
    call_brackets = ('(',)
    index_brackets = ('[',)
    kwargs = True
    range_op = '..'
    all_tokens = ('..',)

    def program(self, until=None):
        out = []
        while not self.at('eof'):
            if self.accept('nl') or self.accept('op', ';') or self.accept('op', ':'):
                continue
            if until and self.at('id', until):
                break
            out.append(self.statement())
            if not (self.at_op(';') or self.at_op(':') or self.at('eof') or (until and self.at('id', until))):
                self.skipnl()
                if not (self.at_op(';') or self.at_op(':') or self.at('eof') or (until and self.at('id', until))):
                    tk = self.peek()
                    raise IllFormed(f'missing statement separator before {tk[1]!r} (offset {tk[2]})')
        return out

    def statement(self):
        if self.at('id') and self.at_op(':=', 1):
            name = self.next()[1]
            self.next()
            self.skipnl()
            return ('assign', name, self.expr_or_proc())
        e = self.expr()
        if self.at_op('='):
            self.next()
            return ('equation', e, self.expr())
        return ('expr', e)

    def expr_or_proc(self):
        if self.at('id', 'proc'):
            self.next()
            self.expect('op', '(')
            params = []
            while not self.accept('op', ')'):
                params.append(self.next()[1])
                if self.accept('op', '::'):
                    self.next()
                self.accept('op', ',')
            body = self.program(until='end')
            self.expect('id', 'end')
            self.accept('id', 'proc')
            return ('lambda', params, body)
        return self.expr()


def maple_qualname(e):
    if e[0] == 'id':
        return e[1]
    if e[0] == 'index' and len(e[2]) == 1 and e[2][0][0] == 'pos':
        inner = e[2][0][1]
        return maple_qualname(e[1]) + '[' + (maple_qualname(inner) if inner[0] in ('id', 'index') else str(inner[1])) + ']'
    raise IllFormed('name expected')


class MapleI(Interp):
    lang = 'maple'

    def run(self, src):
        self.exec_block(MapleP(lex(src, MapleD())).program(), self.env)
        return self

    def exec_block(self, stmts, env):
        v = None
        for st in stmts:
            if st[0] == 'assign':
                v = self.ev(st[2], env)
                self.assign(st[1], v, env)
            elif st[0] == 'equation':
                self.ev(st[1], env) if st[1][0] != 'id' else None
                self.ev(st[2], env)
                v = ('equation',)         # an equation: evaluates its sides, binds nothing
            else:
                v = self.ev(st[1], env)
        return v

    def call_function(self, name, *args):
        f = self.env.get(name)
        if not isinstance(f, Closure):
            raise IllFormed(f'{name} is not a procedure')
        loc = _Scope(self.env)
        for p, a in zip(f.params, args):
            loc[p] = a
        return self.exec_block(f.body, loc)

    def ev(self, e, env):
        k = e[0]
        if k in ('num', 'str'):
            return e[1]
        if k == 'id':
            if e[1] in env:
                return env[e[1]]
            return ('sym', e[1])
        if k == 'matrix':
            return np.array([self.toint(self.ev(x, env)) for x in e[1]])
        if k == 'neg':
            return -self.scalar(self.ev(e[1], env))
        if k == 'bin':
            return self.arith(e[1], self.ev(e[2], env), self.ev(e[3], env))
        if k == 'range':
            a, b = self.toint(self.ev(e[1], env)), self.toint(self.ev(e[2], env))
            if a > b + 1:
                raise IllFormed(f'invalid range {a} .. {b}')
            return irange(a, b)
        if k == 'lambda':
            return Closure(e[1], e[2], env)
        if k == 'index':
            return ('sym', maple_qualname(e))
        if k == 'call':
            f = e[1]
            if f[0] == 'id' and f[1] in env:
                target = env[f[1]]
                if isinstance(target, Closure):
                    return self.call_function(f[1], *[self.ev(a[1], env) for a in e[2]])
                if isinstance(target, np.ndarray):
                    subs = []
                    for a in e[2]:
                        if a[0] == 'all':
                            subs.append('all')
                        elif a[0] == 'pos':
                            v = self.ev(a[1], env)
                            subs.append(v if isinstance(v, np.ndarray) else self.toint(v))
                        else:
                            raise IllFormed('invalid subscript')
                    if len(subs) != target.ndim:
                        raise IllFormed(f'{len(subs)} subscripts for an Array with {target.ndim} dimensions')
                    return self.subscript(target, subs, fold=False, drop_scalars=True, allow_linear=False)
                raise IllFormed(f'{f[1]} is not callable')
            name = maple_qualname(f)
            pos, kw = [], {}
            for a in e[2]:
                if a[0] == 'pos':
                    pos.append(self.ev(a[1], env))
                elif a[0] == 'kw':
                    kw[a[1]] = self.ev(a[2], env)
                else:
                    raise IllFormed('invalid argument')
            return self.builtin(name, pos, kw)
        raise NotUnderstood(f'maple: expression node {k}')

    def builtin(self, name, pos, kw):
        if name == 'FileTools[Binary][Read]':
            if len(pos) < 2:
                raise IllFormed('Read: needs a file and a type')
            t = pos[1]
            m = re.match(r'^(integer|float)\[(\d)\]$', t[1]) if isinstance(t, tuple) and t[0] == 'sym' else None
            if not m or (m.group(1) == 'integer' and m.group(2) not in '1248') or (m.group(1) == 'float' and m.group(2) not in '48'):
                raise IllFormed(f'Read: invalid type {t!r}')
            unknown = set(kw) - {'byteorder', 'output'}
            if unknown:
                raise IllFormed(f'Read: unknown option {sorted(unknown)}')
            bo = kw.get('byteorder', ('sym', 'native'))
            if not (isinstance(bo, tuple) and bo[1] in ('little', 'big', 'native', 'network')):
                raise IllFormed(f'Read: invalid byteorder {bo!r}')
            outp = kw.get('output', ('sym', 'list'))
            if not (isinstance(outp, tuple) and outp[1] in ('Array', 'list', 'Vector')):
                raise IllFormed(f'Read: invalid output {outp!r}')
            fh = self.open_file(pos[0], 'r')
            cnt = self.toint(pos[2]) if len(pos) > 2 else None
            dt = np.dtype(('>' if bo[1] in ('big', 'network') else '<') + ('i' if m.group(1) == 'integer' else 'f') + m.group(2))
            vals = read_items(fh, dt, cnt)
            return colarr(vals, [len(vals)])
        if name == 'FileTools[Binary][Close]':
            return None
        if name == 'ArrayTools[Reshape]':
            arr, dims = pos
            dims = [int(x) for x in np.atleast_1d(dims)]
            if int(np.prod(dims)) != np.size(arr):
                raise IllFormed(f'Reshape: {np.size(arr)} elements into {dims}')
            return colarr(flatF(arr), dims)
        raise NotUnderstood(f'maple builtin {name}')


INTERPRETERS = {'matlab': MatlabI, 'scilab': ScilabI, 'R': RI, 'julia': JuliaI, 'julia_ver0': JuliaI, 'julia_ver1': JuliaI,
                'idl': IDLI, 'mathematica': MmaI, 'maple': MapleI}


def make(lang, cwd, override=None):
    if lang == 'julia_ver0':
        return JuliaI(cwd, override, version=0)
    if lang in ('julia', 'julia_ver1'):
        return JuliaI(cwd, override, version=1)
    return INTERPRETERS[lang](cwd, override)
