"""Run a list of case specifications of one check module in a CHILD interpreter started under another environment
(e.g. LC_ALL=C with UTF-8 mode off), so that behaviour that depends on the interpreter's start-up configuration - the
default text encoding of open() - is exercised with the same executors and oracles as the in-process search.

    python -X utf8=0 -m vlib.envrun <check module> <tier> <seed> <specs.json> <out.json>

Parent side: envrun.run_specs(ctx, col, 'checks.c20', specs, 'c-locale').
"""
import os, sys, json, subprocess, tempfile, importlib

ENVS = {
    # ASCII-only default encoding: LC_ALL=C, no locale coercion, UTF-8 mode off
    'c-locale': ({'LC_ALL': 'C', 'LANG': 'C', 'PYTHONCOERCECLOCALE': '0', 'PYTHONUTF8': '0'}, ['-X', 'utf8=0']),
}


def run_specs(ctx, col, modname, specs, envname):
    """Execute `specs` with modname.execute in a child interpreter under ENVS[envname]; feed the collector."""
    from .runner import HarnessError, HOME, DARR_SRC
    specs = list(specs)
    if not specs:
        return
    env_add, xopts = ENVS[envname]
    env = dict(os.environ)
    env.update(env_add)
    env['PYTHONPATH'] = os.pathsep.join([HOME, DARR_SRC])
    env['DARR_SRC'] = DARR_SRC
    with tempfile.TemporaryDirectory(dir=ctx.root()) as td:
        sp, op = os.path.join(td, 'specs.json'), os.path.join(td, 'out.json')
        with open(sp, 'w', encoding='utf-8') as f:
            json.dump(specs, f)
        p = subprocess.run([sys.executable, '-B', '-W', 'ignore'] + xopts + ['-m', 'vlib.envrun', modname, ctx.tier, str(ctx.seed), sp, op],
                           env=env, cwd=HOME, capture_output=True, text=True, encoding='utf-8', errors='replace')
        if p.returncode != 0 or not os.path.exists(op):
            raise HarnessError(f'child interpreter ({envname}) failed: rc={p.returncode}\n{(p.stdout + p.stderr)[-1500:]}')
        with open(op, encoding='utf-8') as f:
            res = json.load(f)
    if res.get('encoding', '').lower().replace('-', '') in ('utf8',):
        raise HarnessError(f"child interpreter ({envname}) still has a UTF-8 default encoding: {res.get('encoding')}")
    from .runner import Outcome
    for spec, r in zip(specs, res['results']):
        out = Outcome(nontrivial=r['nontrivial'], classes=r['classes'] + ['env:' + envname])
        col.case(dict(spec, env=envname), out)
        for v in r['violations']:
            v = dict(v, callsite=f"{envname}:{v['callsite']}")
            if ctx.known.match(v) is not None:
                col.known_seen[f"{v['kind']}@{v['callsite']}"] += 1
            else:
                col.violation(dict(spec, env=envname), v)


def execute_in_env(ctx, modname, spec):
    """Replay path: one recorded spec that carries an 'env' key is executed in a child interpreter under that environment."""
    from .runner import Collector, Outcome
    col = Collector()
    plain = {k: v for k, v in spec.items() if k != 'env'}
    run_specs(ctx, col, modname, [plain], spec['env'])
    out = Outcome()
    for b in col.buckets.values():
        out.viol(b['kind'], b['callsite'], b['detail'])
    for sig in col.known_seen:
        k, c = sig.split('@', 1)
        out.viol(k, c, 'known finding')
    return out


def _child(argv):
    modname, tier, seed, sp, op = argv
    import locale
    from . import runner
    from .main import _import_darr
    _import_darr(runner.DARR_SRC)
    mod = importlib.import_module(modname)
    ctx = runner.Ctx(mod.PROPERTY, tier, int(seed))
    with open(sp, encoding='utf-8') as f:
        specs = json.load(f)
    results = []
    try:
        for spec in specs:
            out = mod.execute(ctx, spec)
            results.append({'nontrivial': bool(out.nontrivial), 'classes': list(out.classes), 'violations': out.violations})
    finally:
        ctx.cleanup()
    with open(op, 'w', encoding='utf-8') as f:
        json.dump({'encoding': locale.getpreferredencoding(False), 'utf8_mode': sys.flags.utf8_mode, 'results': results}, f)
    return 0


if __name__ == '__main__':
    sys.exit(_child(sys.argv[1:]))
