"""Independent decoder (D-raw): reads a Darr directory from the files alone.

Written from the format description in README.txt / docs (headerless raw values
in C order; numtype, byteorder, shape, arrayorder in arraydescription.json).
Imports nothing from darr.  Raises FormatError when the directory is not a
well-formed array in the documented sense.
"""
import json, os, struct
import numpy as np


class FormatError(Exception):
    pass


# numeric type name -> (struct code for one component, number of components, component size)
TYPES = {
    'int8': ('b', 1, 1), 'int16': ('h', 1, 2), 'int32': ('i', 1, 4), 'int64': ('q', 1, 8),
    'uint8': ('B', 1, 1), 'uint16': ('H', 1, 2), 'uint32': ('I', 1, 4), 'uint64': ('Q', 1, 8),
    'float16': ('e', 1, 2), 'float32': ('f', 1, 4), 'float64': ('d', 1, 8),
    'complex64': ('f', 2, 4), 'complex128': ('d', 2, 8),
}
NPCODE = {
    'int8': 'i1', 'int16': 'i2', 'int32': 'i4', 'int64': 'i8',
    'uint8': 'u1', 'uint16': 'u2', 'uint32': 'u4', 'uint64': 'u8',
    'float16': 'f2', 'float32': 'f4', 'float64': 'f8', 'complex64': 'c8', 'complex128': 'c16',
}
REQUIRED = ('numtype', 'byteorder', 'shape', 'arrayorder', 'darrversion', 'darrobject')


def _loadjson(path):
    try:
        with open(path, 'r', encoding='utf-8') as f:
            return json.load(f)
    except FileNotFoundError:
        raise FormatError(f'missing {os.path.basename(path)}')
    except (ValueError, UnicodeDecodeError) as e:
        raise FormatError(f'{os.path.basename(path)} is not JSON: {e}')


def decode_array(path, require_readme=True, require_object=True):
    """Return (ndarray with explicit byte order, descriptor dict)."""
    path = os.fspath(path)
    d = _loadjson(os.path.join(path, 'arraydescription.json'))
    if not isinstance(d, dict):
        raise FormatError('arraydescription.json is not a dictionary')
    need = REQUIRED if require_object else REQUIRED[:-1]
    for k in need:
        if k not in d:
            raise FormatError(f'descriptor lacks key {k}')
    nt = d['numtype']
    if not isinstance(nt, str) or nt not in TYPES:
        raise FormatError(f'unknown numtype {nt!r}')
    bo = d['byteorder']
    if bo not in ('little', 'big'):
        raise FormatError(f'unknown byteorder {bo!r}')
    if d['arrayorder'] not in ('C', 'F'):
        raise FormatError(f'unknown arrayorder {d["arrayorder"]!r}')
    shape = d['shape']
    if not isinstance(shape, list) or \
            not all(isinstance(x, int) and not isinstance(x, bool) and x >= 0 for x in shape):
        raise FormatError(f'invalid shape {shape!r}')
    if not isinstance(d['darrversion'], str):
        raise FormatError('darrversion is not a string')
    code, ncomp, csize = TYPES[nt]
    itemsize = ncomp * csize
    n = 1
    for x in shape:
        n *= x
    datapath = os.path.join(path, 'arrayvalues.bin')
    try:
        with open(datapath, 'rb') as f:
            raw = f.read()
    except FileNotFoundError:
        raise FormatError('missing arrayvalues.bin')
    if len(raw) != n * itemsize:
        raise FormatError(f'data file has {len(raw)} bytes, descriptor implies {n * itemsize}')
    if require_readme and not os.path.isfile(os.path.join(path, 'README.txt')):
        raise FormatError('missing README.txt')
    e = '<' if bo == 'little' else '>'
    arr = np.frombuffer(raw, dtype=np.dtype(e + NPCODE[nt])).reshape(shape, order=d['arrayorder'])
    # spot-check first and last element with struct, independent of NumPy's dtype parsing
    if n > 0 and d['arrayorder'] == 'C' and len(shape) > 0:
        for pos, idx in ((0, (0,) * len(shape)), (n - 1, tuple(x - 1 for x in shape))):
            comps = struct.unpack(e + code * ncomp, raw[pos * itemsize:(pos + 1) * itemsize])
            got = arr[idx]
            want = np.array(comps[0] if ncomp == 1 else complex(*comps)).astype(arr.dtype.newbyteorder('='))
            gb = np.array(got).astype(arr.dtype.newbyteorder('=')).tobytes()
            if gb != want.tobytes() and not (want != want and got != got):
                raise FormatError(f'struct spot check failed at element {pos}: {comps} vs {got}')
    return arr, d


def decode_ragged(path):
    """Return (list of subarrays, values array, indices array, top-level descriptor)."""
    path = os.fspath(path)
    top = _loadjson(os.path.join(path, 'arraydescription.json'))
    if not isinstance(top, dict):
        raise FormatError('top-level arraydescription.json is not a dictionary')
    for k in ('len', 'size', 'atom', 'numtype', 'darrversion', 'darrobject'):
        if k not in top:
            raise FormatError(f'top-level descriptor lacks key {k}')
    if top['darrobject'] != 'RaggedArray':
        raise FormatError(f"top-level darrobject is {top['darrobject']!r}")
    if not os.path.isfile(os.path.join(path, 'README.txt')):
        raise FormatError('missing top-level README.txt')
    values, vd = decode_array(os.path.join(path, 'values'))
    indices, idd = decode_array(os.path.join(path, 'indices'))
    if indices.ndim != 2 or indices.shape[1] != 2:
        raise FormatError(f'indices has shape {indices.shape}, expected (n, 2)')
    if indices.dtype.kind not in 'iu':
        raise FormatError(f'indices has non-integer type {indices.dtype}')
    n = indices.shape[0]
    N = values.shape[0]
    idx = indices.astype(object)   # exact Python ints
    prev_end = 0
    subs = []
    for k in range(n):
        s, e = int(idx[k, 0]), int(idx[k, 1])
        if k == 0 and s != 0:
            raise FormatError(f'indices[0,0] = {s}, expected 0')
        if s > e:
            raise FormatError(f'row {k}: start {s} > end {e}')
        if s != prev_end:
            raise FormatError(f'row {k}: start {s} != previous end {prev_end}')
        if e > N:
            raise FormatError(f'row {k}: end {e} beyond values length {N}')
        subs.append(values[s:e])
        prev_end = e
    if prev_end != N:
        raise FormatError(f'last end {prev_end} != values length {N} (orphaned values)')
    if top['len'] != n:
        raise FormatError(f"top-level len {top['len']} != {n}")
    size = 1
    for x in values.shape:
        size *= x
    if top['size'] != size:
        raise FormatError(f"top-level size {top['size']} != {size}")
    if list(top['atom']) != list(values.shape[1:]):
        raise FormatError(f"top-level atom {top['atom']} != {list(values.shape[1:])}")
    if top['numtype'] != vd['numtype']:
        raise FormatError(f"top-level numtype {top['numtype']} != {vd['numtype']}")
    return subs, values, indices, top
