"""Shared runner: sharding, collection, known findings, evidence, exit codes.

Contract (see DESIGN.md section 2): a check module exposes

    PROPERTY, LEVEL, RULE, ASSUMPTIONS, MUST_HIT
    tasks(ctx)            -> list of (callable, kwargs); each callable(ctx, col, **kwargs)
    execute(ctx, spec)    -> Outcome (used by the replay path and by the generic drivers)

Workers never print VIOLATION lines themselves; they put violation records in a
Collector, the parent merges them, matches them against known_findings.json and
decides the exit status.
"""
import os, sys, json, hashlib, time, tempfile, shutil, traceback, random
import multiprocessing as mp
from collections import Counter
from contextlib import contextmanager

HOME = os.environ.get('VERIF_HOME') or os.path.dirname(os.path.dirname(os.path.abspath(__file__)))
DARR_SRC = os.path.realpath(os.environ.get('DARR_SRC', '/repo'))
NSHARDS = 16


class HarnessError(Exception):
    """Something is wrong with the machinery (never a violation)."""


def _default(o):
    import numpy as np
    if isinstance(o, (np.integer,)):
        return int(o)
    if isinstance(o, (np.floating,)):
        return float(o)
    if isinstance(o, np.ndarray):
        return o.tolist()
    if isinstance(o, (bytes, bytearray)):
        return o.hex()
    if isinstance(o, (set, frozenset, tuple)):
        return list(o)
    return repr(o)


def canon(spec):
    return json.dumps(spec, sort_keys=True, separators=(',', ':'), default=_default)


def spechash(spec):
    return hashlib.sha1(canon(spec).encode()).hexdigest()


class Outcome:
    """Result of executing one generated case."""
    __slots__ = ('nontrivial', 'classes', 'violations', 'key')

    def __init__(self, nontrivial=True, classes=(), violations=(), key=None):
        self.nontrivial = nontrivial
        self.classes = list(classes)
        self.violations = list(violations)
        self.key = key  # optional: object whose canonical form identifies the case

    def viol(self, kind, callsite, detail=''):
        self.violations.append({'kind': kind, 'callsite': callsite, 'detail': str(detail)[:1500]})

    def cls(self, *names):
        self.classes.extend(names)


class Known:
    """Matcher for known_findings.json (never written at run time)."""

    def __init__(self, prop):
        self.prop = prop
        path = os.path.join(HOME, 'known_findings.json')
        self.open = []
        if os.path.exists(path):
            with open(path) as f:
                d = json.load(f)
            self.open = [e for e in d.get('open', []) if e.get('property') == prop]

    def match(self, v):
        for e in self.open:
            if e.get('kind') == v['kind'] and e.get('callsite') == v['callsite']:
                return e
        return None


class Collector:
    def __init__(self):
        self.evaluations = 0
        self.nontrivial = set()
        self.classes = Counter()
        self.samples = {}      # hash -> spec, the 8 smallest hashes
        self.buckets = {}      # sig -> record
        self.known_seen = Counter()
        self.counters = Counter()
        self.errors = []       # harness errors (tracebacks)
        self.notes = []

    def case(self, spec, out):
        self.evaluations += 1
        for c in out.classes:
            self.classes[c] += 1
        if out.nontrivial:
            hx = spechash(out.key if out.key is not None else spec)
            hv = int(hx[:16], 16)
            if hv not in self.nontrivial:
                self.nontrivial.add(hv)
                if len(self.samples) < 8 or hx < max(self.samples):
                    self.samples[hx] = spec
                    if len(self.samples) > 8:
                        del self.samples[max(self.samples)]

    def violation(self, spec, v):
        sig = f"{v['kind']}@{v['callsite']}"
        size = len(canon(spec))
        b = self.buckets.get(sig)
        if b is None:
            self.buckets[sig] = dict(kind=v['kind'], callsite=v['callsite'], detail=v['detail'],
                                     spec=spec, size=size, count=1)
        else:
            b['count'] += 1
            if size < b['size']:
                b.update(spec=spec, size=size, detail=v['detail'])

    def merge(self, o):
        self.evaluations += o.evaluations
        self.nontrivial |= o.nontrivial
        self.classes.update(o.classes)
        self.known_seen.update(o.known_seen)
        self.counters.update(o.counters)
        self.errors.extend(o.errors)
        self.notes.extend(o.notes)
        for hx, s in o.samples.items():
            self.samples[hx] = s
        while len(self.samples) > 8:
            del self.samples[max(self.samples)]
        for sig, b in o.buckets.items():
            mine = self.buckets.get(sig)
            if mine is None:
                self.buckets[sig] = b
            else:
                mine['count'] += b['count']
                if b['size'] < mine['size']:
                    mine.update(spec=b['spec'], size=b['size'], detail=b['detail'])


class Ctx:
    def __init__(self, prop, tier, seed):
        self.prop = prop
        self.tier = tier
        self.seed = seed
        self.known = Known(prop)
        self.home = HOME
        self.darr_src = DARR_SRC
        self._root = None
        self._n = 0

    @property
    def thorough(self):
        return self.tier == 'thorough'

    def pick(self, quick, thorough):
        return thorough if self.tier == 'thorough' else quick

    # -- scratch -----------------------------------------------------------
    def root(self):
        if self._root is None or not os.path.isdir(self._root):
            base = '/dev/shm' if os.path.isdir('/dev/shm') and os.access('/dev/shm', os.W_OK) else None
            self._root = tempfile.mkdtemp(prefix=f'vf{self.prop}_', dir=base)
        return self._root

    def cleanup(self):
        if self._root and os.path.isdir(self._root):
            shutil.rmtree(self._root, ignore_errors=True)
        self._root = None

    @contextmanager
    def scratch(self):
        """Yield a fresh, existing, empty directory; removed afterwards."""
        self._n += 1
        d = os.path.join(self.root(), f'c{os.getpid()}_{self._n}')
        os.mkdir(d)
        try:
            yield d
        finally:
            _rmtree(d)


def _rmtree(d):
    def onerr(func, path, exc):
        try:
            os.chmod(os.path.dirname(path), 0o700)
            os.chmod(path, 0o700)
            func(path)
        except Exception:
            pass
    shutil.rmtree(d, onerror=onerr)


# ---------------------------------------------------------------------------
# generic drivers usable from check modules

class _Found(Exception):
    pass


# Crash isolation. Cases normally run inside the pool worker; if the code under test takes the interpreter down (SIGSEGV / SIGBUS
# from a view of a closed memory map, say) the worker dies and nothing is learnt. The tasks whose workers died are therefore run
# again with ISOLATE on: every case in its own forked child, whose death by signal is the violation 'interpreter-crash' for that
# case (shrunk and saved like any other).
ISOLATE = False


def _isolated(execute):
    def run(spec):
        r, w = os.pipe()
        pid = os.fork()
        if pid == 0:
            code = 0
            try:
                os.close(r)
                out = execute(spec)
                data = json.dumps({'nontrivial': bool(out.nontrivial), 'classes': list(out.classes), 'violations': out.violations,
                                   'key': out.key}, default=_default).encode()
                os.write(w, data) if len(data) < 60000 else os.write(w, json.dumps({'nontrivial': True, 'classes': list(out.classes)[:50],
                                                                                  'violations': out.violations[:3], 'key': None}, default=_default).encode())
            except BaseException:
                try:
                    os.write(w, json.dumps({'harness': traceback.format_exc()[-3000:]}).encode())
                except Exception:
                    pass
                code = 3
            finally:
                os._exit(code)
        os.close(w)
        chunks = []
        while True:
            b = os.read(r, 65536)
            if not b:
                break
            chunks.append(b)
        os.close(r)
        _, status = os.waitpid(pid, 0)
        if os.WIFSIGNALED(status):
            out = Outcome()
            out.viol('interpreter-crash', f'signal-{os.WTERMSIG(status)}', f'the interpreter was killed by signal {os.WTERMSIG(status)} while executing this case')
            return out
        d = json.loads(b''.join(chunks).decode() or '{}')
        if 'harness' in d or os.WEXITSTATUS(status) != 0:
            raise HarnessError('exception inside the harness/oracle (isolated case):\n' + d.get('harness', f'exit status {os.WEXITSTATUS(status)}'))
        out = Outcome(nontrivial=d['nontrivial'], classes=d['classes'], violations=d['violations'], key=d.get('key'))
        return out
    return run


# Descriptor watch. Every case is bracketed by a count of the process's open file descriptors. A case that leaves descriptors
# open (still open after a garbage collection) is not a violation by itself - no property speaks about descriptors - but it is run
# again, repeatedly, in a forked child that has only a few dozen free descriptors: an ordinary long-running program.  If a call
# the oracle expects to succeed fails there, that failure is the violation (annotated with how it was reached).  On a tree that
# leaks nothing the amplification never runs.
FDWATCH = True
AMPLIFY_REPS = 60
AMPLIFY_SPARE = 32


def _fds():
    try:
        return set(os.listdir('/proc/self/fd'))
    except OSError:
        return set()


def _amplify(execute, spec):
    r, w = os.pipe()
    pid = os.fork()
    if pid == 0:
        msg = {}
        try:
            os.close(r)
            import resource
            soft, hard = resource.getrlimit(resource.RLIMIT_NOFILE)
            top = max([int(x) for x in _fds() if x.isdigit()] + [0])
            resource.setrlimit(resource.RLIMIT_NOFILE, (min(top + 1 + AMPLIFY_SPARE, soft), hard))
            for i in range(AMPLIFY_REPS):
                try:
                    out = execute(spec)
                except BaseException:
                    tb = traceback.format_exc()
                    if 'Too many open files' in tb or 'Errno 24' in tb:
                        msg = {'emfile': i + 1, 'tb': tb[-1500:]}
                    else:
                        msg = {'harness': tb[-3000:]}
                    break
                if out.violations:
                    msg = {'rep': i + 1, 'v': out.violations[0]}
                    break
        except BaseException:
            msg = {'harness': traceback.format_exc()[-3000:]}
        finally:
            try:
                os.write(w, json.dumps(msg, default=_default).encode()[:60000])
            except BaseException:
                pass
            os._exit(0)
    os.close(w)
    chunks = []
    while True:
        b = os.read(r, 65536)
        if not b:
            break
        chunks.append(b)
    os.close(r)
    _, status = os.waitpid(pid, 0)
    if os.WIFSIGNALED(status):
        return {'signal': os.WTERMSIG(status)}
    try:
        return json.loads(b''.join(chunks).decode() or '{}')
    except ValueError:
        return {}


def _fdwatched(execute):
    def run(spec):
        before = _fds()
        out = execute(spec)
        if out.violations or spec.get('env'):
            return out
        left = _fds() - before
        if left:
            import gc
            gc.collect()
            left = _fds() - before
        if not left:
            return out
        out.cls('descriptors-left-open')
        res = _amplify(execute, spec)
        for fd in left:              # keep this worker healthy: what the case left behind is garbage
            try:
                os.close(int(fd))
            except (OSError, ValueError):
                pass
        how = (f'every run of this case leaves {len(left)} file descriptor(s) open; repeated in one process that has {AMPLIFY_SPARE} '
               f'free descriptors, ')
        if 'v' in res:
            v = res['v']
            out.viol(v['kind'], v['callsite'], how + f"run {res['rep']} fails: " + str(v.get('detail', ''))[:1500])
        elif 'emfile' in res:
            out.viol('descriptors-exhausted', 'repeated-case', how + f"run {res['emfile']} fails with EMFILE:\n" + res['tb'])
        elif 'signal' in res:
            out.viol('interpreter-crash', f"signal-{res['signal']}", how + 'the interpreter is killed')
        elif 'harness' in res:
            raise HarnessError('exception inside the harness/oracle while a descriptor-leaking case was repeated:\n' + res['harness'])
        return out
    return run


class _StopShrink(BaseException):
    pass


def judge(ctx, col, spec, out):
    """Record a case; split its violations into known / unknown. Returns unknown list."""
    col.case(spec, out)
    unknown = []
    for v in out.violations:
        e = ctx.known.match(v)
        if e is not None:
            col.known_seen[f"{v['kind']}@{v['callsite']}"] += 1
        else:
            unknown.append(v)
    return unknown


def hyp_search(ctx, col, strategy, execute, seed, max_examples, shrink=True):
    """Seeded Hypothesis search with shrinking; violations are recorded in col.

    execute(spec) -> Outcome. Known findings are excluded by construction so the
    search goes on behind them. A harness exception propagates (exit 2)."""
    from hypothesis import given, settings, seed as hseed, HealthCheck, Phase
    if ISOLATE:
        execute = _isolated(execute)
    elif FDWATCH:
        execute = _fdwatched(execute)
    last = {}
    state = {'after': 0, 'over': False, 'harness': False}
    budget = 150 if ctx.tier == 'quick' else 1000     # evaluations spent on shrinking one failure
    phases = [Phase.generate] + ([Phase.shrink] if shrink else [])

    @hseed(seed)
    @settings(max_examples=max_examples, database=None, deadline=None, derandomize=False,
              report_multiple_bugs=False, suppress_health_check=list(HealthCheck),
              phases=phases, print_blob=False)
    @given(strategy)
    def t(spec):
        if state['over']:
            return
        if last:
            state['after'] += 1
            if state['after'] > budget:
                state['over'] = True
                raise _StopShrink()       # BaseException: Hypothesis aborts at once, the best example so far is kept
        try:
            out = execute(spec)
        except BaseException:
            state['harness'] = True
            state['tb'] = f'spec={canon(spec)[:2000]}\n' + traceback.format_exc()
            raise
        unknown = judge(ctx, col, spec, out)
        if unknown:
            last['spec'] = spec
            last['v'] = unknown[0]
            raise _Found()

    try:
        t()
    except BaseException:
        if state['harness']:
            raise HarnessError('exception inside the harness/oracle while executing a generated case:\n' + state.get('tb', ''))
        if not last:
            raise
        col.violation(last['spec'], last['v'])


def hyp_collect(strategy, seed, n):
    """n specs generated by the seeded strategy, without executing anything (used to hand the same kind of cases to a child
    interpreter started under another environment)."""
    from hypothesis import given, settings, seed as hseed, HealthCheck, Phase
    got = []

    @hseed(seed)
    @settings(max_examples=n, database=None, deadline=None, derandomize=False, suppress_health_check=list(HealthCheck),
              phases=[Phase.generate], print_blob=False)
    @given(strategy)
    def t(spec):
        got.append(spec)
    t()
    return got[:n]


def _is_found(e):
    while e is not None:
        if isinstance(e, _Found):
            return True
        e = e.__cause__ or e.__context__
    return False


def enum_search(ctx, col, specs, execute):
    """Run every spec of an explicit enumeration (no shrinking needed: the
    smallest failing spec per signature is kept)."""
    if ISOLATE:
        execute = _isolated(execute)
    elif FDWATCH:
        execute = _fdwatched(execute)
    for spec in specs:
        out = execute(spec)
        for v in judge(ctx, col, spec, out):
            col.violation(spec, v)


def shard_seed(ctx, shard):
    return ctx.seed * 1000 + shard


# ---------------------------------------------------------------------------
# process pool

_TASKS = None
_CTX = None


def _work(i):
    fn, kwargs = _TASKS[i]
    ctx = _CTX
    ctx._root = None
    col = Collector()
    random.seed(0)
    t0 = time.time()
    try:
        fn(ctx, col, **kwargs)
    except BaseException:
        col.errors.append(f"task {i} {getattr(fn, '__name__', fn)} {kwargs}:\n" + traceback.format_exc())
    finally:
        ctx.cleanup()
    col.counters[f'task_s:{getattr(fn, "__name__", "?")}'] += int((time.time() - t0) * 1000)
    return col


def _work_isolated(i):
    global ISOLATE
    ISOLATE = True
    return _work(i)


def run_tasks(ctx, tasks, procs=None):
    global _TASKS, _CTX
    _TASKS, _CTX = tasks, ctx
    total = Collector()
    if not tasks:
        return total
    procs = procs or min(NSHARDS, len(tasks), os.cpu_count() or 1)
    if procs <= 1:
        for i in range(len(tasks)):
            total.merge(_work(i))
        return total
    from concurrent.futures import ProcessPoolExecutor, as_completed
    from concurrent.futures.process import BrokenProcessPool
    mpctx = mp.get_context('fork')
    died = []
    with ProcessPoolExecutor(max_workers=procs, mp_context=mpctx) as ex:
        futs = {ex.submit(_work, i): i for i in range(len(tasks))}
        for f in as_completed(futs):
            try:
                total.merge(f.result())
            except BrokenProcessPool:
                died.append(futs[f])       # (a broken pool fails every task that had not finished, not only the one that crashed)
            except Exception:
                total.errors.append(f"task {futs[f]}:\n" + traceback.format_exc())
    if died:
        # a worker was killed by a signal: run the unfinished tasks again, every case in its own forked child
        total.counters['tasks_rerun_with_crash_isolation'] += len(died)
        with ProcessPoolExecutor(max_workers=procs, mp_context=mpctx) as ex:
            futs = {ex.submit(_work_isolated, i): i for i in sorted(died)}
            for f in as_completed(futs):
                try:
                    total.merge(f.result())
                except BrokenProcessPool:
                    total.errors.append(f"worker process died while running task {futs[f]} {tasks[futs[f]][1]} even with every case "
                                        f"in its own child process")
                except Exception:
                    total.errors.append(f"task {futs[f]}:\n" + traceback.format_exc())
    return total


# ---------------------------------------------------------------------------
# finishing: evidence + verdict

def write_evidence(ctx, mod, col, wall, nviol, extra=None):
    cov = {
        'evaluations': int(col.evaluations),
        'distinct_nontrivial': int(len(col.nontrivial)),
        'rule': mod.RULE,
        'samples': [col.samples[k] for k in sorted(col.samples)][:8],
        'classes': dict(sorted(col.classes.items())),
        'known_findings_seen': dict(col.known_seen),
        'counters': {k: v for k, v in sorted(col.counters.items()) if not k.startswith('task_s:')},
        'task_ms': {k[7:]: v for k, v in sorted(col.counters.items()) if k.startswith('task_s:')},
    }
    if col.notes:
        cov['notes'] = sorted(set(col.notes))[:10]
    ex = getattr(mod, 'EXHAUSTIVE', None)
    if ex:
        cov['exhaustive'] = True
        cov['exhaustive_over'] = ex
    if extra:
        cov.update(extra)
    ev = {
        'property_id': ctx.prop,
        'tier': ctx.tier,
        'seed': int(ctx.seed),
        'level': mod.LEVEL,
        'coverage': cov,
        'assumptions': list(getattr(mod, 'ASSUMPTIONS', [])),
        'wall_s': round(wall, 2),
        'violations': int(nviol),
        'darr_src': ctx.darr_src,
    }
    evdir = os.environ.get('VERIF_EVIDENCE_DIR') or os.path.join(HOME, 'evidence')
    os.makedirs(evdir, exist_ok=True)
    path = os.path.join(evdir, f'{ctx.prop}.json')
    tmp = path + '.tmp'
    with open(tmp, 'w') as f:
        json.dump(ev, f, indent=1, default=_default, sort_keys=True)
    os.replace(tmp, path)
    return path


def save_found(ctx, b):
    d = os.path.join(HOME, 'replays', ctx.prop)
    os.makedirs(d, exist_ok=True)
    hx = spechash([b['kind'], b['callsite'], b['spec']])[:12]
    path = os.path.join(d, f'found-{hx}.json')
    with open(path, 'w') as f:
        json.dump({'property': ctx.prop, 'kind': b['kind'], 'callsite': b['callsite'],
                   'detail': b['detail'], 'spec': b['spec']}, f, indent=1, default=_default, sort_keys=True)
    return path
