"""Parent side of the atheris campaigns (thorough tiers of C18 and C20)."""
import os, sys, json, re, subprocess, shutil
from .runner import HOME


def run_atheris(ctx, mode, runs, seeds, tokens, max_len=400, timeout=1500):
    """Returns dict(available, executed, finding, note)."""
    work = os.path.join(ctx.root(), f'fuzz_{mode}')
    if os.path.exists(work):
        shutil.rmtree(work)
    corpus = os.path.join(work, 'corpus')
    os.makedirs(corpus)
    for i, s in enumerate(seeds):
        with open(os.path.join(corpus, f'seed{i}'), 'wb') as f:
            f.write(s)
    dictfile = os.path.join(work, 'dict.txt')
    with open(dictfile, 'w') as f:
        for t in tokens:
            f.write('"' + ''.join(c if (32 <= ord(c) < 127 and c not in '"\\') else '\\x%02x' % ord(c) for c in t) + '"\n')
    findings = os.path.join(work, 'finding.json')
    env = dict(os.environ)
    env['PYTHONPATH'] = os.pathsep.join([HOME, os.path.join(HOME, '.deps'), env.get('PYTHONPATH', '')])
    cmd = [sys.executable, '-B', '-W', 'ignore', '-m', 'vlib.fuzzers', mode, os.path.join(work, 'w'), findings, corpus,
           f'-runs={runs}', f'-seed={max(1, ctx.seed)}', f'-max_len={max_len}', f'-dict={dictfile}', '-print_final_stats=1',
           f'-artifact_prefix={work}/crash-', '-timeout=60']
    try:
        p = subprocess.run(cmd, cwd=HOME, env=env, capture_output=True, text=True, timeout=timeout)
        err = p.stderr
    except subprocess.TimeoutExpired as e:
        return dict(available=True, executed=0, finding=None, note='time budget hit (inconclusive)')
    if 'No module named' in err and 'atheris' in err:
        return dict(available=False, executed=0, finding=None, note='atheris not installed (run ./setup.sh)')
    m = re.search(r'stat::number_of_executed_units:\s*(\d+)', err)
    executed = int(m.group(1)) if m else 0
    finding = None
    if os.path.exists(findings):
        with open(findings) as f:
            finding = json.load(f)
    stats = {}
    if os.path.exists(findings + '.stats'):
        with open(findings + '.stats') as f:
            stats = json.load(f)
    note = '' if (p.returncode == 0 or finding) else f'fuzzer exited with {p.returncode}: {err[-400:]}'
    return dict(available=True, executed=executed, finding=finding, note=note, stats=stats)
