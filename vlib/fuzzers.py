"""Coverage-guided byte fuzzing (atheris / libFuzzer) for the thorough tiers of C18 and C20.

Run as:  python -m vlib.fuzzers <c18|c20> <workdir> <findings.json> [libFuzzer flags...]

The semantic oracle lives inside the target (an invariant over what the code
under test did with the decoded input); a violation is written to
<findings.json> as a plain JSON case and the process aborts, so that libFuzzer
keeps the crashing input.  The parent (checks/c18.py, checks/c20.py) re-checks
every finding through the ordinary replay path before reporting it.
"""
import os, sys, json, shutil


def _setup_darr():
    src = os.path.realpath(os.environ.get('DARR_SRC', '/repo'))
    sys.path.insert(0, src)
    home = os.environ.get('VERIF_HOME') or os.path.dirname(os.path.dirname(os.path.abspath(__file__)))
    sys.path.insert(0, home)
    sys.path.insert(0, os.path.join(home, '.deps'))


def main():
    mode, work, findings = sys.argv[1:4]
    flags = sys.argv[4:]
    _setup_darr()
    import atheris
    with atheris.instrument_imports(include=['darr']):
        import darr
    import numpy as np
    from vlib import rawdec
    from vlib.snap import snapshot

    os.makedirs(work, exist_ok=True)
    workreal = os.path.realpath(work)
    state = {'n': 0}

    def report(case):
        with open(findings, 'w') as f:
            json.dump(case, f)
        raise RuntimeError('property violated: ' + json.dumps(case)[:300])

    def stats():          # atexit does not run under libFuzzer: keep a side file current instead
        with open(findings + '.stats', 'w') as f:
            json.dump({'executed_inside_workdir': state['n'], 'skipped_name_leaves_workdir': state.get('outside', 0)}, f)

    if mode == 'c18':
        kinds = []
        for i, (shape, dt) in enumerate((((6,), 'int32'), ((2, 3, 2), 'float64'), ((0, 3), 'uint16'))):
            p = os.path.join(work, f'k{i}.darr')
            if os.path.exists(p):
                shutil.rmtree(p)
            darr.asarray(p, (np.arange(int(np.prod(shape)), dtype=dt) * 3 + 1).reshape(shape))
            kinds.append((p, open(os.path.join(p, 'arrayvalues.bin'), 'rb').read()))

        def target(data):
            if len(data) < 2:
                return
            k = data[0] % 3
            grow = (data[1] % 19) - 9
            desc = data[2:]
            p, orig = kinds[k]
            with open(os.path.join(p, 'arraydescription.json'), 'wb') as f:
                f.write(desc)
            body = orig[:grow] if grow < 0 else orig + b'\x07' * grow
            with open(os.path.join(p, 'arrayvalues.bin'), 'wb') as f:
                f.write(body)
            try:
                a = darr.Array(p)
            except Exception:
                return
            try:
                arr, _ = rawdec.decode_array(p, require_readme=False, require_object=False)
            except rawdec.FormatError as e:
                report({'fuzz': 'bytes', 'kind': k, 'grow': grow, 'desc_hex': desc.hex(), 'why': str(e)})
            got = a[...]
            if np.dtype(got.dtype).str != arr.dtype.str or got.shape != arr.shape or got.tobytes() != arr.tobytes():
                report({'fuzz': 'bytes', 'kind': k, 'grow': grow, 'desc_hex': desc.hex(), 'why': 'handle reads differently from the files'})
    elif mode in ('c20a', 'c20r'):
        only = 'a' if mode == 'c20a' else 'r'      # one array per campaign: a DataDir only protects the files of its own array
        parent = os.path.join(work, 'parent')
        objs = {}

        def fresh():
            if os.path.exists(parent):
                shutil.rmtree(parent)
            os.makedirs(os.path.join(parent, 'pa'))
            os.makedirs(os.path.join(parent, 'pr'))
            if only == 'a':
                a = darr.asarray(os.path.join(parent, 'pa', 'a.darr'), np.arange(8, dtype='int32'), accessmode='r+', metadata={'m': 1})
                objs['a'] = (a, str(a.path), snapshot(str(a.path)))
            else:
                r = darr.asraggedarray(os.path.join(parent, 'pr', 'r.darr'), [[1, 2], [3], []], dtype='float32', accessmode='r+')
                objs['r'] = (r, str(r.path), snapshot(str(r.path)))
        fresh()

        def target(data):
            if len(data) < 2:
                return
            which = data[0]
            try:
                name = data[1:].decode('utf-8')
            except UnicodeDecodeError:
                name = data[1:].decode('latin-1')
            if not name or '\x00' in name:
                return
            obj, path, own = objs[only]
            # The campaign may only touch its own work directory: DataDir resolves user-file names
            # against the array directory, so an absolute name or enough '..' would create, overwrite
            # or (delete_files) remove files anywhere on the machine.  '..' up to the work directory
            # (three levels) stays available; everything else is skipped and counted.
            resolved = os.path.realpath(os.path.join(path, name))
            if not resolved.startswith(workreal + os.sep):
                state['outside'] = state.get('outside', 0) + 1
                if state['outside'] % 1000 == 0:
                    stats()
                return
            state.setdefault('hist', []).append([which, name])
            del state['hist'][:-12]
            dd = obj.datadir
            m = (which >> 1) % 8
            try:
                if m == 0:
                    dd.write_txt(name, 'x', overwrite=bool(which & 128))
                elif m == 1:
                    dd.write_jsondict(name, {'a': 1}, overwrite=bool(which & 128))
                elif m == 2:
                    dd.write_jsonfile(name, [1], overwrite=bool(which & 128))
                elif m == 3:
                    dd.update_jsondict(name, {'a': 1})
                elif m == 4:
                    dd.delete_files([name])
                else:
                    mode_ = ['w', 'a', 'r+', 'wb', 'x', 'ab', 'rb+', 'w+'][(which >> 4) % 8]
                    with dd.open_file(name, mode_) as f:
                        f.write(b'Z' if 'b' in mode_ else 'Z')
            except Exception:
                pass
            now = snapshot(path)
            changed = [k for k in own if now.get(k) != own[k]]
            if changed:
                report({'fuzz': 'path', 'which': (which & ~1) | (1 if only == 'a' else 0), 'name': name, 'changed': changed[:4], 'recent': state['hist']})
            extra = [k for k in now if k not in own]
            inside = [k for k in extra if only == 'r' and (k.startswith('values/') or k.startswith('indices/'))]
            if inside:
                report({'fuzz': 'path', 'which': (which & ~1), 'name': name, 'changed': inside[:4], 'why': 'created inside a protected directory'})
            for k in extra:            # user files are legitimate: remove them again
                full = os.path.join(path, k)
                try:
                    if os.path.isdir(full) and not os.path.islink(full):
                        shutil.rmtree(full)
                    elif os.path.lexists(full):
                        os.remove(full)
                except OSError:
                    pass
            state['n'] += 1
            if state['n'] % 1000 == 0:
                stats()
            if state['n'] % 5000 == 0:
                fresh()               # also clears whatever '../x' names created next to the arrays
    else:
        raise SystemExit('unknown mode')

    atheris.Setup([sys.argv[0]] + flags, target)
    atheris.Fuzz()


if __name__ == '__main__':
    main()
