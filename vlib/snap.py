"""Directory snapshots: relative path -> (kind, mode bits, content | link target).
mtime is ignored; symlinks are never followed."""
import os, stat


def snapshot(path):
    """Snapshot of `path` (file, dir, symlink or missing)."""
    out = {}
    _snap(path, '.', out)
    return out


def _snap(p, rel, out):
    try:
        stt = os.lstat(p)
    except FileNotFoundError:
        out[rel] = ('missing',)
        return
    m = stat.S_IMODE(stt.st_mode)
    if stat.S_ISLNK(stt.st_mode):
        out[rel] = ('link', os.readlink(p))
    elif stat.S_ISDIR(stt.st_mode):
        out[rel] = ('dir', m)
        for name in sorted(os.listdir(p)):
            _snap(os.path.join(p, name), name if rel == '.' else rel + '/' + name, out)
    elif stat.S_ISREG(stt.st_mode):
        with open(p, 'rb') as f:
            out[rel] = ('file', m, f.read())
    else:
        out[rel] = ('other', m)


def diff(a, b, limit=6):
    """Human-readable list of differences between two snapshots."""
    d = []
    for k in sorted(set(a) | set(b)):
        if a.get(k) != b.get(k):
            x, y = a.get(k), b.get(k)
            def brief(v):
                if v is None:
                    return 'absent'
                if v[0] == 'file':
                    return f'file[{len(v[-1])}B]'
                return str(v)
            d.append(f'{k}: {brief(x)} -> {brief(y)}')
    return d[:limit]


def subset(s, prefix):
    return {k: v for k, v in s.items() if k == prefix or k.startswith(prefix + '/')}


def open_fds_for(path):
    """File descriptors of this process that refer to something under `path`."""
    hits = []
    path = os.path.realpath(path)
    for fd in os.listdir('/proc/self/fd'):
        try:
            t = os.readlink(f'/proc/self/fd/{fd}')
        except OSError:
            continue
        if t == path or t.startswith(path + os.sep) or t.startswith(path + ' (deleted)'):
            hits.append((int(fd), t))
    return hits


def maps_for(path):
    path = os.path.realpath(path)
    hits = []
    with open('/proc/self/maps') as f:
        for line in f:
            parts = line.split(None, 5)
            if len(parts) == 6:
                t = parts[5].strip()
                if t == path or t.startswith(path + os.sep):
                    hits.append(t)
    return hits
