"""Model-based histories on a Darr Array (shared by C02, C03, C08).

A history spec is {'start': {...}, 'ops': [op, ...]} with relative arguments;
`run_array_history` applies every op to the real array and to a NumPy ndarray
model in lock-step and calls the enabled oracles after every step:

  'model'  (C03) live + fresh handle equal the model; rejected calls raise and
           leave directory snapshot and handle unchanged; prefix bytes preserved
  'raw'    (C02) independent decoder reconstructs model and API state from files
  'readme' (C08) README.txt equals the text generated from a fresh handle and
           its stated fields agree with the model
"""
import os, json, re
import itertools
import numpy as np
from hypothesis import strategies as st
from . import gens, rawdec
from .gens import kind, dt_of
from .snap import snapshot, diff


# ------------------------------------------------------------------ strategies
APPEND_KINDS = ['rows', 'rows', 'otherdt', 'list', 'scalar', 'zero', 'layout', 'badshape', 'badrank', 'unconv', '0d',
                'manyrows', 'zero-badshape', 'zero-badrank', 'emptylist', 'npscalar', 'tuple', 'darr', 'darr', 'darr-self']
INVALID_KINDS = ('badshape', 'badrank', 'unconv', '0d', 'zero-badshape', 'zero-badrank', 'emptylist')
TRUNC_TOKENS = [0, 1, 2, -1, -2, 'half', '-len', 'len', 'len+3', 'len-1', 2.0, 'a', None, 9, 'np:int8', 'np:uint8', 'np:int16', 'np:int64',
                'f:0.13', 'f:0.37', 'f:0.58', 'f:0.8', 'f:0.97']


@st.composite
def st_append_arg(draw, valid_only=False):
    kinds = [k for k in APPEND_KINDS if not (valid_only and (k in INVALID_KINDS or k.startswith('darr')))]
    k = draw(st.sampled_from(kinds))
    arg = {'k': k, 'n': draw(st.integers(1, 3)), 'seed': draw(st.integers(0, 2 ** 31))}
    if k == 'manyrows':      # lengths that gain decimal digits, cross the 4096-byte stdio buffer and the 64 KB mark
        arg['n'] = draw(st.sampled_from([7, 12, 40, 100, 600, 9000]))
    if k == 'otherdt':
        arg['dt'] = draw(gens.st_dt())
    if k == 'darr':          # the operand is itself a Darr array on disk (0..3 rows, of the array's type or another one)
        arg['n'] = draw(st.sampled_from([0, 0, 1, 2, 3]))
        arg['dt'] = draw(st.one_of(st.none(), gens.st_dt()))
    if k == 'layout':
        arg['layout'] = draw(st.sampled_from(gens.LAYOUTS))
    return arg


@st.composite
def st_array_op(draw, shape_rank, extra=()):
    o = draw(st.sampled_from(['append', 'append', 'iterappend', 'set', 'trunc', 'trunc', 'mode', 'reopen', 'ctx', 'copy', 'failappend', 'sibling', 'recreate', 'overwrite-refused', 'iterappend-x', 'iterappend-nd'] + list(extra)))
    if o == 'append':
        return {'o': 'append', 'arg': draw(st_append_arg())}
    if o == 'iterappend-nd':
        return {'o': 'iterappend-nd', 'k': draw(st.integers(1, 3)), 'n': draw(st.integers(0, 3)), 'seed': draw(st.integers(0, 2 ** 31)),
                'wrong': draw(st.sampled_from([False, False, True]))}
    if o == 'iterappend':
        nc = draw(st.integers(0, 4))
        return {'o': 'iterappend', 'chunks': [draw(st_append_arg(valid_only=True)) for _ in range(nc)],
                'gen': draw(st.booleans())}
    if o == 'set':
        # index components are relative to a nominal extent; out-of-range ones are legitimate test inputs
        shape = [draw(st.integers(0, 6))] + [3] * (shape_rank - 1)
        return {'o': 'set', 'idx': draw(gens.st_basic_index(shape)),
                'val': {'k': draw(st.sampled_from(['scalar', 'row', 'otherdt'])), 'seed': draw(st.integers(0, 2 ** 31))}}
    if o == 'trunc':
        return {'o': 'trunc', 'i': draw(st.sampled_from(TRUNC_TOKENS)), 'by': draw(st.sampled_from(['obj', 'obj', 'str', 'path']))}
    if o == 'mode':
        return {'o': 'mode', 'm': draw(st.sampled_from(['r', 'r+', 'r+']))}
    if o == 'reopen':
        return {'o': 'reopen', 'm': draw(st.sampled_from(['r', 'r+', 'r+']))}
    if o == 'meta':
        return {'o': 'meta', 'a': draw(st.sampled_from(['set', 'set', 'del', 'clear', 'refused'])), 'k': draw(st.sampled_from(['a', 'b']))}
    if o == 'overwrite':
        return {'o': 'overwrite', 'start': draw(st_start()), 'over': draw(st.sampled_from(['same', 'same', 'ragged']))}
    if o == 'copy':
        return {'o': 'copy', 'chunklen': draw(st.sampled_from([None, 1, 2, 3]))}
    if o == 'recreate':
        return {'o': 'recreate', 'how': draw(st.sampled_from(['delete_array', 'rmtree']))}
    if o == 'iterappend-x':
        return {'o': 'iterappend-x', 'style': draw(st.sampled_from(['reentrant', 'reentrant', 'reused-buffer', 'reused-buffer', 'copy-inside', 'manychunks'])),
                'n': draw(st.sampled_from([1100, 2100])), 'seed': draw(st.integers(0, 2 ** 31))}
    if o == 'overwrite-refused':
        return {'o': 'overwrite-refused', 'what': draw(st.sampled_from(['strings', 'bools', 'objects', 'structured']))}
    if o == 'meta-own-mode':
        return {'o': 'meta-own-mode', 'a': draw(st.sampled_from(['set', 'set', 'clear'])), 'k': draw(st.sampled_from(['a', 'b']))}
    if o == 'sibling':
        return {'o': 'sibling', 'start': draw(st_start()), 'via': draw(st.sampled_from(['create', 'create', 'open']))}
    if o == 'failappend':
        return {'o': 'failappend', 'chunks': [draw(st_append_arg(valid_only=True)) for _ in range(draw(st.integers(0, 3)))],
                'kind': draw(st.sampled_from(['raise', 'badshape', 'unconv', 'interrupt', 'halt']))}
    if o == 'ctx':
        inner = [draw(st.one_of(st.builds(lambda a: {'o': 'append', 'arg': a}, st_append_arg(valid_only=True)),
                                st.just({'o': 'iterappend', 'chunks': [{'k': 'rows', 'n': 2, 'seed': 5}, {'k': 'zero', 'n': 1, 'seed': 6}], 'gen': True}),
                                st.builds(lambda i: {'o': 'trunc-loose', 'i': i}, st.sampled_from([0, 1, -1, 'half']))))
                 for _ in range(draw(st.integers(1, 3)))]
        return {'o': 'ctx', 'ops': inner, 'via': draw(st.sampled_from(['open_array', 'iterchunks']))}
    raise ValueError(o)


@st.composite
def st_start(draw, max_rank=3):
    rank = draw(st.integers(1, max_rank))
    first = draw(st.sampled_from([0, 0, 1, 2, 3, 5]))
    shape = [first] + [draw(st.integers(1, 3)) for _ in range(rank - 1)]
    zerotail = rank > 1 and draw(st.integers(0, 9)) == 0
    if zerotail:          # rows without elements: shape (n, 0), (n, 2, 0) ... (creatable with an explicit chunk length)
        shape[rank - 1] = 0          # (the last axis: nested lists cannot express extents behind an empty one)
    return {'dt': draw(gens.st_dt()), 'shape': shape, 'seed': draw(st.integers(0, 2 ** 31)),
            'how': draw(st.sampled_from(['asarray', 'asarray', 'create'])), 'mode': draw(st.sampled_from(['r+', 'r+', 'r'])),
            'meta': draw(st.booleans()), 'layout': draw(st.sampled_from(['C', 'C'] + gens.LAYOUTS)),
            'chunklen': draw(st.sampled_from([1, 2, 5] if zerotail else [None, 1, 2, 5])), 'dtspell': draw(st.sampled_from([0, 0, 0] + list(range(1, 16)))),
            'owspell': draw(st.sampled_from([0, 0, 1, 2, 3]))}


@st.composite
def st_array_history(draw, max_ops=10, extra=()):
    start = draw(st_start())
    n = draw(st.integers(1, max_ops))
    ops = [draw(st_array_op(len(start['shape']), extra)) for _ in range(n)]
    spec = {'start': start, 'ops': ops}
    if draw(st.sampled_from([False, False, True])):
        spec['lazy'] = True
        for op in ops:
            if draw(st.sampled_from([True, False, False, False])):
                op['lo'] = True
    return spec


# ------------------------------------------------------------------ building operands
def build_append_operand(arg, m):
    """Return the Python object passed to append for model array m (dtype, trailing shape)."""
    k = arg['k']
    tail = m.shape[1:]
    n = arg['n']
    t = m.dtype.name
    seed = arg['seed']
    if k in ('rows', 'layout', 'manyrows'):
        x = gens.build_array(m.dtype, (n,) + tail, {'m': 'raw', 's': seed})
        return gens.apply_layout(x, arg.get('layout', 'C'))
    if k == 'tuple':
        x = gens.build_array(m.dtype, (n,) + tail, {'m': 'safe', 's': seed})
        return gens.tolist_nested(np.ascontiguousarray(x).astype(m.dtype.newbyteorder('=')), as_tuple=True)
    if k == 'npscalar':      # a NumPy scalar of the array's own type (no __len__)
        return gens.build_array(m.dtype, (1,), {'m': 'raw', 's': seed})[0]
    if k == 'zero-badshape':  # no rows, but an incompatible trailing shape
        return np.zeros((0,) + tail[:-1] + ((tail[-1] + 1,) if tail else (2,)), dtype=m.dtype)
    if k == 'zero-badrank':
        return np.zeros((0,) + tail + (2,), dtype=m.dtype)
    if k == 'emptylist':
        return []
    if k == 'otherdt':
        odt = dt_of(arg['dt'])
        mode = gens.cast_mode(arg['dt']['t'], t)
        x = gens.build_array(odt, (n,) + tail, {'m': mode, 's': seed})
        return gens.apply_layout(x, arg['layout']) if arg.get('layout') else x
    if k == 'list':
        x = gens.build_array(m.dtype, (n,) + tail, {'m': 'safe', 's': seed})
        return np.ascontiguousarray(x).astype(m.dtype.newbyteorder('=')).tolist()
    if k == 'scalar':
        x = gens.build_array(m.dtype, (1,), {'m': 'safe', 's': seed})
        return x.astype(m.dtype.newbyteorder('='))[0].item()
    if k == 'zero':
        return np.zeros((0,) + tail, dtype=m.dtype)
    if k == 'badshape':
        return gens.build_array(m.dtype, (n,) + tail[:-1] + ((tail[-1] + 1,) if tail else (2,)), {'m': 'safe', 's': seed})
    if k == 'badrank':
        return gens.build_array(m.dtype, (n,) + tail + (2,), {'m': 'safe', 's': seed})
    if k == 'unconv':
        return [['x'] * 2] if seed % 2 else 'abc'
    if k == '0d':
        return gens.build_array(m.dtype, (), {'m': 'safe', 's': seed})     # 0-d ndarray: has __len__ but no length
    raise ValueError(k)


def model_append(m, x):
    """What the NumPy model does with an append operand: returns new model or raises."""
    if hasattr(x, '__len__'):
        arr = np.asarray(x, dtype=m.dtype)
    else:
        arr = np.array(x, dtype=m.dtype, ndmin=1)
    if arr.shape[1:] != m.shape[1:]:
        raise TypeError('incompatible trailing shape')
    # concatenate on bytes so the byte order cannot drift
    buf = m.tobytes() + np.ascontiguousarray(arr).tobytes()
    return np.frombuffer(buf, dtype=m.dtype).reshape((m.shape[0] + arr.shape[0],) + m.shape[1:]).copy()


def big_operand_specs():
    """One append / iterappend operand above 1, 16 and 64 MiB: of the array's own type and of another one, in C, Fortran,
    transposed, strided and reversed memory layout (a conversion done block-wise or on a flattened view has to keep the order)."""
    for (t, bo, tail), (ot, obo) in ((('int16', '<', [3]), ('float64', '<')), (('float32', '>', [2, 2]), ('int32', '<')), (('uint8', '<', []), ('int64', '>'))):
        rowitems = int(np.prod(tail)) if tail else 1
        for mib in (1, 16, 64):
            n = (mib * 2 ** 20) // (rowitems * np.dtype(ot).itemsize) + 7
            for layout in ('C', 'F', 'T', 'strided', 'neg'):
                if layout in ('F', 'T') and not tail:
                    continue
                if mib == 64 and layout not in ('F', 'neg'):
                    continue
                start = {'dt': {'t': t, 'bo': bo}, 'shape': [2] + tail, 'seed': 3, 'how': 'asarray', 'mode': 'r+', 'meta': False}
                big = {'k': 'otherdt', 'n': n, 'seed': 5, 'dt': {'t': ot, 'bo': obo}, 'layout': layout}
                own = {'k': 'layout', 'n': n // 2, 'seed': 6, 'layout': layout}
                yield {'start': start, 'big': f'{mib}MiB', 'ops': [{'o': 'append', 'arg': big}, {'o': 'trunc', 'i': 3, 'by': 'obj'},
                                                                    {'o': 'iterappend', 'chunks': [{'k': 'rows', 'n': 1, 'seed': 7}, own, big], 'gen': True}]}


def zero_extent_specs():
    """Arrays whose rows have no elements - shape (n, 0), (n, 2, 0), (0, 0) - taken through appends, truncations, failing
    appends and a reopen: the length changes while the number of stored values stays 0."""
    for (t, bo), shape in itertools.product([('int32', '<'), ('float64', '>')], [[3, 0], [0, 0], [2, 2, 0], [4, 0, 3]]):
        start = {'dt': {'t': t, 'bo': bo}, 'shape': shape, 'seed': 3, 'how': 'asarray', 'mode': 'r+', 'meta': False, 'chunklen': 2}
        rows = lambda n, sd: {'k': 'rows', 'n': n, 'seed': sd}
        for ops in ([{'o': 'append', 'arg': rows(2, 1)}, {'o': 'reopen', 'm': 'r+'}, {'o': 'append', 'arg': rows(1, 2)}],
                    [{'o': 'append', 'arg': rows(3, 1)}, {'o': 'trunc', 'i': 1, 'by': 'obj'}, {'o': 'iterappend', 'chunks': [rows(1, 2), rows(2, 3)], 'gen': True}],
                    [{'o': 'iterappend', 'chunks': [rows(2, 1)], 'gen': False}, {'o': 'failappend', 'chunks': [rows(1, 2)], 'kind': 'raise'}, {'o': 'trunc', 'i': 2, 'by': 'str'}],
                    [{'o': 'append', 'arg': rows(1, 1)}, {'o': 'mode', 'm': 'r'}, {'o': 'mode', 'm': 'r+'}, {'o': 'append', 'arg': {'k': 'zero', 'n': 1, 'seed': 1}},
                     {'o': 'append', 'arg': rows(2, 2)}]):
            yield {'start': start, 'ops': ops}
            yield {'start': dict(start, how='create'), 'ops': ops}


def trunc_grid_specs(nmax=130):
    """Truncation of arrays of every length 2..nmax to a handful of shorter lengths, for row sizes 1, 8 and 12 bytes (byte offsets
    computed by any means other than exact integer arithmetic go wrong for particular (length, new length) pairs only)."""
    for n in range(2, nmax):
        for (t, bo, tail) in (('int8', '<', []), ('float64', '>', []), ('float32', '<', [3])):
            for k in sorted({n - 1, n // 2, n * 3 // 4, (n * 31) // 39, n * 15 // 26, 1}):
                if 0 <= k < n:
                    yield {'start': {'dt': {'t': t, 'bo': bo}, 'shape': [n] + tail, 'seed': n, 'how': 'asarray', 'mode': 'r+', 'meta': False,
                                     'layout': 'C', 'chunklen': 50},
                           'ops': [{'o': 'trunc', 'i': k, 'by': 'obj' if n % 3 else 'str'}, {'o': 'append', 'arg': {'k': 'rows', 'n': 1, 'seed': 1}}]}


def trunc_index(tok, n):
    if isinstance(tok, str) and tok.startswith('f:'):
        return int(n * float(tok[2:]))
    if isinstance(tok, str) and tok.startswith('np:'):
        t = np.dtype(tok[3:])
        return t.type(min(n // 2, np.iinfo(t).max))
    if tok == 'half':
        return n // 2
    if tok == '-len':
        return -n
    if tok == 'len':
        return n
    if tok == 'len+3':
        return n + 3
    if tok == 'len-1':
        return n - 1
    return tok


def model_trunc_ok(idx, m):
    if type(idx) is not int:
        return False
    return 0 <= len(m[:idx]) < len(m)


# ------------------------------------------------------------------ README field extraction (independent of darr)
def readme_fields(txt):
    f = {}
    mt = re.search(r'^  Numeric type: (.*)$', txt, re.M)
    f['numtype'] = mt.group(1).strip() if mt else None
    mb = re.search(r'^  Byte order: (\w+)', txt, re.M)
    f['byteorder'] = mb.group(1) if mb else None
    ml = re.search(r'^  Array length: (\d+)$', txt, re.M)
    md = re.search(r'^  Array dimensions: \((.*)\)$', txt, re.M)
    if ml:
        f['shape'] = (int(ml.group(1)),)
    elif md:
        f['shape'] = tuple(int(x) for x in md.group(1).replace(' ', '').split(',') if x)
    else:
        f['shape'] = None
    f['mentions_metadata'] = "'metadata.json'" in txt or 'metadata.json' in txt.split('Code for reading')[0].split('arraydescription.json')[-1]
    return f


NUMTYPE_WORDS = {
    'int8': ('8', 'signed integer'), 'int16': ('16', 'signed integer'), 'int32': ('32', 'signed integer'),
    'int64': ('64', 'signed integer'), 'uint8': ('8', 'unsigned integer'), 'uint16': ('16', 'unsigned integer'),
    'uint32': ('32', 'unsigned integer'), 'uint64': ('64', 'unsigned integer'), 'float16': ('16', 'half precision float'),
    'float32': ('32', 'single precision float'), 'float64': ('64', 'double precision float'),
    'complex64': ('64', 'complex number'), 'complex128': ('128', 'complex number'),
}


def check_array_readme(out, path, m, has_meta, tag):
    """C08 oracle for one Array directory against model ndarray m."""
    import darr
    try:
        from darr.array import readcodetxt
    except ImportError:          # renamed in a refactoring: fall back to the independent field extraction alone
        readcodetxt = None
        out.cls('readme:no-reference-generator')
    rp = os.path.join(path, 'README.txt')
    if not os.path.isfile(rp):
        out.viol('readme-missing', tag, rp)
        return
    with open(rp, 'r', encoding='utf-8') as f:
        txt = f.read()
    try:
        fresh = darr.Array(path)
        want = readcodetxt(fresh) if readcodetxt else txt
    except Exception as e:
        out.viol('fresh-open-raised', tag, f'{type(e).__name__}: {e}')
        return
    if txt != want:
        # locate the first differing line for the report
        a, b = txt.splitlines(), want.splitlines()
        i = next((i for i, (x, y) in enumerate(zip(a, b)) if x != y), min(len(a), len(b)))
        out.viol('readme-stale', tag, f'line {i}: on disk {a[i] if i < len(a) else "<eof>"!r} / regenerated {b[i] if i < len(b) else "<eof>"!r}')
        return
    f = readme_fields(txt)
    bits, word = NUMTYPE_WORDS[m.dtype.name]
    # a field that cannot be located (reworded README) is not a contradiction: only located fields are compared
    nt = (f['numtype'] or '').replace('‐', '-')
    if f['numtype'] is None:
        out.cls('readme:field-not-located')
    elif not (nt.startswith(bits + '-bit') and word in nt):
        out.viol('readme-wrong-field', tag + ':numtype', f"README says {f['numtype']!r}, data are {m.dtype.name}")
    bo = 'little' if m.dtype.str[0] in '<|' else 'big'
    if m.dtype.itemsize == 1:
        bo = f['byteorder'] if f['byteorder'] in ('little', 'big') else None   # meaningless for 1-byte types
    if f['byteorder'] is not None and f['byteorder'] != bo:
        out.viol('readme-wrong-field', tag + ':byteorder', f"README says {f['byteorder']!r}, data are {bo}")
    if f['shape'] is not None and f['shape'] != tuple(m.shape):
        out.viol('readme-wrong-field', tag + ':shape', f"README says {f['shape']}, data are {m.shape}")
    if f['mentions_metadata'] != bool(has_meta):
        out.viol('readme-wrong-field', tag + ':metadata', f"README mentions metadata.json: {f['mentions_metadata']}, metadata exist: {has_meta}")
    for lang in fresh.readcodelanguages:
        code = fresh.readcode(lang)
        if code not in txt:
            out.viol('readme-missing-code', tag + ':' + lang, f'current readcode({lang!r}) not in README')


# ------------------------------------------------------------------ the interpreter
class ArrayRun:
    def __init__(self, spec, d, out, oracles):
        self.spec, self.d, self.out, self.oracles = spec, d, out, set(oracles)
        self.path = os.path.join(d, 'arr.darr')
        self.meta = {}
        self.a = None
        self.m = None
        self.stepno = 0
        self.kinds = []
        self.siblings = []      # other Arrays alive in the same process: (handle, path, reference ndarray)

    def check_siblings(self):
        import darr
        for h, path, ref in self.siblings:
            try:
                arr, dj = rawdec.decode_array(path)
                got = h[:]
                fresh = darr.Array(path)
                ok = arr.dtype.str == ref.dtype.str and arr.shape == ref.shape and arr.tobytes() == ref.tobytes() and \
                    got.tobytes() == ref.tobytes() and tuple(h.shape) == ref.shape and np.dtype(h.dtype).str == ref.dtype.str and \
                    tuple(fresh.shape) == ref.shape and np.dtype(fresh.dtype).str == ref.dtype.str
            except Exception as e:
                self.out.viol('sibling-array-changed', 'sibling-array', f'{type(e).__name__}: {e}')
                return False
            if not ok:
                self.out.viol('sibling-array-changed', 'sibling-array', f'{path}: no longer equal to what was stored in it')
                return False
            if 'readme' in self.oracles:
                check_array_readme(self.out, path, ref, False, 'sibling')
        return not self.out.violations

    # -- creation
    def create(self, start, overwrite=False, over='same'):
        import darr
        dt = dt_of(start['dt'])
        shape = tuple(start['shape'])
        ref = gens.build_array(dt, shape, {'m': start.get('vals', 'raw'), 's': start['seed']})
        md = {'a': 1, 'nested': {'x': [1, 2.5, 'y']}} if start['meta'] else None
        kw = dict(overwrite=gens.spell_true(start.get('owspell', 0))) if overwrite else {}
        dtsp = gens.spell_dtype(dt, start.get('dtspell', 0))
        if start.get('dtspell') or (overwrite and start.get('owspell')):
            self.out.cls('argument-spelling')
        if overwrite and over == 'ragged':
            # the previous occupant of the path is a RaggedArray
            import shutil
            self.a = None
            shutil.rmtree(self.path)
            darr.asraggedarray(self.path, [[1, 2], [3]], dtype='int16', metadata={'old': 1})
            self.out.cls('overwrite-over-ragged')
        if start['how'] == 'create':
            ref = np.full(shape, ref.ravel()[0] if ref.size else 0, dtype=dt)
            fillv = ref.ravel()[0] if ref.size else 0
            self.a = darr.create_array(self.path, shape=shape, dtype=dtsp, fill=fillv, chunklen=2,
                                       accessmode=start['mode'], metadata=md, **kw)
        else:
            x = gens.apply_layout(ref, start.get('layout', 'C'))
            ref = np.ascontiguousarray(x)
            if start.get('layout', 'C') != 'C':
                self.out.cls('created-from-layout:' + start['layout'])
            if start.get('dtspell'):        # the array's own type, spelled out as the dtype argument
                kw = dict(kw, dtype=gens.spell_dtype(x.dtype, start['dtspell']))
            self.a = darr.asarray(self.path, x, accessmode=start['mode'], metadata=md, chunklen=start.get('chunklen', 2), **kw)
        self.m = ref.copy()
        self.meta = dict(md) if md else {}

    @property
    def mode(self):
        return self.a.accessmode

    def _append_darr(self, arg, empty):
        """append() whose operand is a Darr array: another array on disk (0..3 rows, own or other element type), or the array
        itself.  An operand without rows is a zero-row append for a 1-D array; for an N-D array it leaves the state as it is whether
        or not the call is accepted (NumPy's conversion of a sequence without items has shape (0,), so refusing it there is
        legitimate); one with rows is appended."""
        import darr
        a, m = self.a, self.m
        tag = f"append:{arg['k']}:{empty}"
        self.kinds.append('append')
        self.out.cls('append-operand-is-a-darr-array' + (':itself' if arg['k'] == 'darr-self' else ''))
        if arg['k'] == 'darr-self':
            opnd, rows = a, m
        else:
            odt = dt_of(arg['dt']) if arg.get('dt') else m.dtype
            mode_ = gens.cast_mode(arg['dt']['t'], m.dtype.name) if arg.get('dt') else 'raw'
            rows = gens.build_array(odt, (arg['n'],) + m.shape[1:], {'m': mode_, 's': arg['seed']})
            self._nopnd = getattr(self, '_nopnd', 0) + 1
            opnd = darr.asarray(os.path.join(os.path.dirname(self.path), f'operand{self._nopnd}.darr'), rows, chunklen=2)
        if self.mode == 'r':
            self.out.cls('ro-mutator')
            return self.expect_reject(tag + ':ro', lambda: a.append(opnd))
        if rows.shape[0] == 0:
            self.out.cls('zero-row-append')
            if m.ndim == 1:      # a sequence without items converts to shape (0,): a zero-row append for a 1-D array
                if not self.expect_ok(tag + ':zero-rows', lambda: a.append(opnd)):
                    return False
                return self.observe(tag + ':zero-rows')
            try:
                a.append(opnd)
            except Exception:
                pass
            return self.observe(tag + ':zero-rows')
        if not self.expect_ok(tag, lambda: a.append(opnd)):
            return False
        self.m = model_append(m, np.ascontiguousarray(rows))
        return self.observe(tag)

    # -- observation
    def observe(self, tag):
        out, a, m = self.out, self.a, self.m
        import darr
        if 'model' in self.oracles:
            # while an enclosing context holds the (fixed-shape) memory map open only a fresh handle can see new data
            handles = [] if (getattr(self, 'in_ctx', False) or getattr(self, 'skip_live', False)) else [('live', a)]
            try:
                handles.append(('fresh', darr.Array(self.path)))
            except Exception as e:
                out.viol('fresh-open-raised', tag, f'step {self.stepno}: {type(e).__name__}: {e}')
                return False
            for hn, h in handles:
                try:
                    got = h[:]
                    state = (len(h), tuple(h.shape), h.size, h.nbytes, np.dtype(h.dtype).str)
                except Exception as e:
                    out.viol('read-raised', f'{tag}:{hn}', f'step {self.stepno}: {type(e).__name__}: {e}')
                    return False
                want = (m.shape[0], tuple(m.shape), int(m.size), int(m.nbytes), m.dtype.str)
                if state != want:
                    out.viol('state-mismatch', f'{tag}:{hn}', f'step {self.stepno}: (len,shape,size,nbytes,dtype)={state} want {want}')
                    return False
                if got.shape != m.shape or np.dtype(got.dtype).str != m.dtype.str or got.tobytes() != m.tobytes():
                    out.viol('content-mismatch', f'{tag}:{hn}', f'step {self.stepno}: got {got.ravel()[:8]} want {m.ravel()[:8]}')
                    return False
            with open(os.path.join(self.path, 'arrayvalues.bin'), 'rb') as f:
                if f.read() != m.tobytes():
                    out.viol('file-mismatch', tag, f'step {self.stepno}: data file bytes differ from model bytes')
                    return False
        if 'raw' in self.oracles:
            try:
                arr, dj = rawdec.decode_array(self.path)
            except rawdec.FormatError as e:
                out.viol('not-self-describing', tag, f'step {self.stepno}: {e}')
                return False
            if arr.dtype.str != m.dtype.str or arr.shape != m.shape or arr.tobytes() != m.tobytes():
                out.viol('raw-decode-differs-from-model', tag,
                         f'step {self.stepno}: decoded {arr.dtype.str}{arr.shape} model {m.dtype.str}{m.shape}')
                return False
            try:
                src = darr.Array(self.path) if (getattr(self, 'in_ctx', False) or getattr(self, 'skip_live', False)) else a
                api = src[:]
                if np.dtype(src.dtype).str != arr.dtype.str or tuple(src.shape) != arr.shape or api.tobytes() != arr.tobytes():
                    out.viol('raw-decode-differs-from-api', tag,
                             f'step {self.stepno}: decoded {arr.dtype.str}{arr.shape} api {np.dtype(a.dtype).str}{tuple(a.shape)}')
                    return False
            except Exception as e:
                out.viol('read-raised', f'{tag}:live', f'step {self.stepno}: {type(e).__name__}: {e}')
                return False
            if dj.get('darrobject') != 'Array':
                out.viol('not-self-describing', tag, f"darrobject is {dj.get('darrobject')!r}")
            mp = os.path.join(self.path, 'metadata.json')
            if os.path.exists(mp):
                try:
                    with open(mp) as f:
                        if not isinstance(json.load(f), dict):
                            out.viol('not-self-describing', tag + ':metadata', 'metadata.json is not a dictionary')
                except ValueError as e:
                    out.viol('not-self-describing', tag + ':metadata', f'metadata.json unparsable: {e}')
        if 'readme' in self.oracles:
            check_array_readme(out, self.path, m, bool(self.meta), tag)
        return not out.violations

    def _reopen(self, tag):
        import darr
        try:
            self.a = darr.Array(self.path, accessmode=self.mode)
            return True
        except Exception as e:
            self.out.viol('fresh-open-raised', tag, f'step {self.stepno}: {type(e).__name__}: {e}')
            return False

    # -- one step
    def expect_reject(self, tag, fn):
        """fn must raise; the state (data file bytes, and what live and fresh handles report) must be unchanged.
        The descriptor / README *text* may be rewritten as long as it describes the same state."""
        datafile = os.path.join(self.path, 'arrayvalues.bin')
        with open(datafile, 'rb') as f:
            before = f.read()
        listing = sorted(os.listdir(self.path))
        try:
            fn()
        except Exception:
            pass
        else:
            self.out.viol('no-raise', tag, f'step {self.stepno}: call the model rejects did not raise')
            return False
        with open(datafile, 'rb') as f:
            after = f.read()
        if before != after or sorted(os.listdir(self.path)) != listing:
            self.out.viol('rejected-but-changed', tag, f'step {self.stepno}: data file {len(before)}B -> {len(after)}B, '
                          f'files {listing} -> {sorted(os.listdir(self.path))}')
            return False
        return self.observe(tag + ':after-reject')

    def expect_ok(self, tag, fn):
        try:
            fn()
            return True
        except Exception as e:
            self.out.viol('valid-call-raised', f'{tag}:{type(e).__name__}', f'step {self.stepno}: {type(e).__name__}: {str(e)[:300]}')
            return False

    def step(self, op):
        import darr
        o = op['o']
        a, m = self.a, self.m
        self.stepno += 1
        empty = 'empty' if m.size == 0 else 'nonempty'
        if self.siblings and not getattr(self, 'in_ctx', False):
            # (the oracles open fresh handles on the array under test: make a sibling the most recently constructed object again)
            h_, sp_, sref_ = self.siblings[-1]
            try:
                self.siblings[-1] = (darr.Array(sp_), sp_, sref_)
            except Exception as e:
                self.out.viol('sibling-array-changed', 'sibling-array', f'{type(e).__name__}: {e}')
                return False
        if o == 'append':
            arg = op['arg']
            if getattr(self, 'in_ctx', False) and arg['k'] in ('scalar', 'npscalar') and m.ndim > 1:
                arg = dict(arg, k='rows')     # inside a context only valid appends are issued (a failed one closes the shared descriptor)
            if arg['k'] in ('darr', 'darr-self'):
                if getattr(self, 'in_ctx', False):
                    return True
                return self._append_darr(arg, empty)
            x = build_append_operand(arg, m)
            tag = f"append:{arg['k']}:{empty}"
            try:
                newm = model_append(m, x)
            except Exception:
                newm = None
            self.kinds.append('append')
            if self.mode == 'r':
                self.out.cls('ro-mutator')
                return self.expect_reject(tag + ':ro', lambda: a.append(x))
            if arg['k'] == '0d':
                # rank-0 operand: rejecting it (state unchanged) and storing it as one element of a 1-D array are both legitimate
                self.out.cls('append-0d')
                try:
                    a.append(x)
                except Exception:
                    return self.observe(tag + ':after-reject')
                if m.ndim == 1:
                    self.m = model_append(m, np.array(x, ndmin=1))
                    return self.observe(tag)
                self.out.viol('no-raise', tag, f'step {self.stepno}: 0-d operand accepted by a {m.ndim}-D array')
                return False
            if newm is None:
                self.out.cls('rejected-call')
                return self.expect_reject(tag, lambda: a.append(x))
            if m.size == 0:
                self.out.cls('append-to-empty')
            if arg['k'] == 'zero':
                self.out.cls('zero-row-append')
            if arg['k'] == 'otherdt' and m.dtype.str[0] == '>':
                self.out.cls('otherdt->bigendian')
            prev = m.tobytes()
            if not self.expect_ok(tag, lambda: a.append(x)):
                return False
            self.m = newm
            if 'model' in self.oracles:
                with open(os.path.join(self.path, 'arrayvalues.bin'), 'rb') as f:
                    if f.read(len(prev)) != prev:
                        self.out.viol('prefix-changed', tag, f'step {self.stepno}: append changed previously stored bytes')
                        return False
            return self.observe(tag)
        if o == 'iterappend':
            chunks = [build_append_operand(c if not (c['k'] in ('scalar', 'npscalar') and m.ndim > 1) else dict(c, k='rows'), m)
                      for c in op['chunks']]
            tag = f"iterappend:{len(chunks)}:{empty}"
            self.kinds.append('iterappend')
            it = (c for c in chunks) if op['gen'] else list(chunks)
            if self.mode == 'r':
                self.out.cls('ro-mutator')
                return self.expect_reject(tag + ':ro', lambda: a.iterappend(it))
            newm = m
            for c in chunks:
                newm = model_append(newm, c)
            if not chunks:
                self.out.cls('iterappend-empty:' + empty)
            if not self.expect_ok(tag, lambda: a.iterappend(it)):
                return False
            self.m = newm
            return self.observe(tag)
        if o == 'iterappend-nd':
            # the iterable is ONE ndarray: its first axis runs over the chunks - shape (k, n) + row shape appends k chunks of n rows
            # ('wrong': an ndarray shaped like a single chunk, whose "chunks" are therefore single rows of too low a rank: refused)
            if self.mode == 'r' or getattr(self, 'in_ctx', False):
                return True
            self.kinds.append('iterappend')
            self.out.cls('iterappend:ndarray-as-iterable')
            if op.get('wrong') and m.ndim > 1:
                block = gens.build_array(m.dtype, (2,) + m.shape[1:], {'m': 'raw', 's': op['seed']})
                self.out.cls('rejected-call')
                return self.expect_reject('iterappend-nd:rows-as-chunks', lambda: a.iterappend(block))
            block = gens.build_array(m.dtype, (op['k'], op['n']) + m.shape[1:], {'m': 'raw', 's': op['seed']})
            newm = m
            for i_ in range(op['k']):
                newm = model_append(newm, block[i_])
            if not self.expect_ok('iterappend-nd', lambda: a.iterappend(block)):
                return False
            self.m = newm
            return self.observe('iterappend-nd')
        if o == 'iterappend-x':
            # unusual but legitimate chunk sources for ONE iterappend call:
            #   manychunks    - more than a thousand (two thousand) one-row chunks
            #   reentrant     - the generator itself appends to the same array, through the same handle, between two of its chunks
            #   reused-buffer - every chunk is the SAME ndarray object, refilled between yields (dtype and byte order of the array)
            #   copy-inside   - the generator takes a copy() of the array half-way; the copy must equal what the handle shows then
            if self.mode == 'r' or getattr(self, 'in_ctx', False):
                return True
            style = op['style']
            tail = m.shape[1:]
            self.kinds.append('iterappend')
            self.out.cls('iterappend:' + style)
            tag = f'iterappend-x:{style}:{empty}'
            rows = lambda k, sd: gens.build_array(m.dtype, (k,) + tail, {'m': 'raw', 's': op['seed'] + sd})
            problems = []
            if style == 'manychunks':
                block = rows(op['n'], 1)
                src = (block[i:i + 1] for i in range(op['n']))
                expect = [block]
            elif style == 'reentrant':
                c1, extra, c2 = rows(2, 1), rows(1, 2), rows(1, 3)

                def src():
                    yield c1
                    a.append(extra)
                    yield c2
                src = src()
                expect = [c1, extra, c2]
            elif style == 'reused-buffer':
                parts = [rows(2, i) for i in range(4)]
                buf = np.empty((2,) + tail, dtype=m.dtype)

                def src():
                    for p_ in parts:
                        buf[...] = p_
                        yield buf
                src = src()
                expect = parts
            else:
                c1, c2 = rows(2, 1), rows(1, 2)
                cpath = os.path.join(self.d, f'copy-inside{self.stepno}.darr')

                def src():
                    yield c1
                    try:
                        seen = a[:]
                        c = a.copy(cpath, **({"chunklen": 2} if 0 in m.shape[1:] else {}))
                        if c[:].tobytes() != seen.tobytes() or tuple(c.shape) != seen.shape:
                            problems.append('copy taken during the append differs from what the handle showed at that moment')
                    except Exception as e:
                        problems.append(f'copy() during the append raised {type(e).__name__}: {e}')
                    yield c2
                src = src()
                expect = [c1, c2]
            newm = m
            for c_ in expect:
                newm = model_append(newm, c_)
            if not self.expect_ok(tag, lambda: a.iterappend(src)):
                return False
            if problems:
                self.out.viol('copy-during-append', tag, f'step {self.stepno}: {problems[0]}')
                return False
            self.m = newm
            return self.observe(tag)
        if o == 'overwrite-refused':
            # a re-creation over the array (overwrite=True) that is refused because of its element type: nothing may have changed
            if getattr(self, 'in_ctx', False):
                return True
            self.kinds.append('overwrite-refused')
            self.out.cls('overwrite-refused')
            bad = {'strings': ['a', 'b'], 'bools': np.array([True, False]), 'objects': np.array([object(), None], dtype=object),
                   'structured': np.zeros(2, dtype=[('x', 'i4'), ('y', 'f8')])}[op['what']]
            before = snapshot(self.path)
            try:
                darr.asarray(self.path, bad, overwrite=True)
            except Exception:
                pass
            else:
                self.out.viol('no-raise', 'overwrite-refused:' + op['what'], f'step {self.stepno}: asarray of {op["what"]} over the array did not raise')
                return False
            after = snapshot(self.path)
            if after != before:
                self.out.viol('rejected-but-changed', 'overwrite-refused:' + op['what'], f'step {self.stepno}: ' + '; '.join(diff(before, after)))
                return False
            return self.observe('overwrite-refused')
        if o == 'meta-own-mode':
            # the handle stays read-only; only its metadata object is switched to r+ (a documented attribute), then keys come and go
            if getattr(self, 'in_ctx', False):
                return True
            self.kinds.append('meta')
            self.out.cls('metadata-changed-through-its-own-accessmode')
            oldmode = a.accessmode
            try:
                a.accessmode = 'r'
                a.metadata.accessmode = 'r+'
                if op['a'] == 'set':
                    if not self.meta:
                        self.out.cls('meta-created')
                    a.metadata[op['k']] = 7.5
                    self.meta[op['k']] = 7.5
                else:
                    for kk in list(self.meta):
                        a.metadata.pop(kk)
                        del self.meta[kk]
                        if not self.meta:
                            self.out.cls('meta-deleted')
            except Exception as e:
                self.out.viol('valid-call-raised', f'meta-own-mode:{type(e).__name__}', f'step {self.stepno}: {type(e).__name__}: {e}')
                return False
            finally:
                a.accessmode = oldmode
            return self.observe('meta-own-mode:' + op['a'])
        if o == 'recreate':
            # the array is deleted and the SAME array (same start state, hence same type, shape and metadata presence) is created
            # again at the same path in the same process
            if getattr(self, 'in_ctx', False) or self.path != os.path.join(self.d, 'arr.darr'):
                return True
            self.kinds.append('recreate')
            self.out.cls('deleted-and-created-again-at-the-same-path')
            try:
                if op['how'] == 'delete_array' and not os.path.exists(os.path.join(self.path, 'values')):
                    self.a.accessmode = 'r+'
                    darr.delete_array(self.a)
                else:
                    import shutil
                    self.a = None
                    shutil.rmtree(self.path)
                self.create(self.spec['start'])
            except Exception as e:
                self.out.viol('valid-call-raised', f'recreate:{type(e).__name__}', f'step {self.stepno}: {type(e).__name__}: {e}')
                return False
            return self.observe('recreate')
        if o == 'sibling':
            # another Array (other dtype, rank, byte order) comes to life in the same process and stays alive
            self.out.cls('sibling-object-alive')
            st0 = op['start']
            sdt, sshape = dt_of(st0['dt']), tuple(st0['shape'])
            sref = gens.build_array(sdt, sshape, {'m': 'raw', 's': st0['seed']})
            spath = os.path.join(self.d, f'sib{self.stepno}.darr')
            try:
                h = darr.asarray(spath, sref, accessmode='r+', chunklen=st0.get('chunklen', 2))
                if op['via'] == 'open':
                    h = darr.Array(spath)
                h.readcodelanguages
            except Exception as e:
                self.out.viol('valid-call-raised', f'sibling:{type(e).__name__}', f'step {self.stepno}: {type(e).__name__}: {e}')
                return False
            self.siblings.append((h, spath, sref))
            return self.observe('after-sibling')
        if o == 'failappend':
            # an iterappend that fails after len(chunks) good chunks: it must raise and exactly the good chunks are kept (C09);
            # the history then goes on through the same handle
            if self.mode == 'r' or getattr(self, 'in_ctx', False):
                return True
            chunks = [build_append_operand(c if not (c['k'] in ('scalar', 'npscalar') and m.ndim > 1) else dict(c, k='rows'), m)
                      for c in op['chunks']]
            fk = op['kind']
            tag = f"failappend:{fk}:{len(chunks)}:{empty}"
            self.kinds.append('failappend')
            self.out.cls('failed-append-in-history', f'failed-append:{fk}')
            bad = build_append_operand({'k': 'badshape', 'n': 1, 'seed': 3}, m) if fk == 'badshape' else [['x'] * 2] if fk == 'unconv' else None

            class _Boom(Exception):
                pass

            class _Halt(BaseException):
                pass

            def src():
                for c in chunks:
                    yield c
                if bad is None:
                    raise (KeyboardInterrupt() if fk == 'interrupt' else _Halt('stop') if fk == 'halt' else _Boom('data source failed'))      # interrupt: Ctrl-C while the source runs; halt: an application's own BaseException
                yield bad
            newm = m
            for c in chunks:
                newm = model_append(newm, c)
            try:
                a.iterappend(src())
            except BaseException:
                pass
            else:
                self.out.viol('no-raise', tag, f'step {self.stepno}: failing iterappend did not raise')
                return False
            self.m = newm
            return self.observe(tag)
        if o == 'set':
            idx = gens.build_index(op['idx'])
            vk = op['val']['k']
            tag = f'set:{vk}:{empty}'
            self.kinds.append('set')
            probe = m.copy()
            try:
                target = probe[idx]
                tshape = np.shape(target)
                if vk == 'scalar':
                    v = gens.build_array(m.dtype, (1,), {'m': 'raw', 's': op['val']['seed']})[0]
                elif vk == 'row':
                    v = gens.build_array(m.dtype, tshape[-1:] if tshape else (1,), {'m': 'raw', 's': op['val']['seed']})
                    if not tshape:
                        v = v[0]
                else:
                    v = gens.build_array('float64' if kind(m.dtype.name) != 'c' else 'complex128', tshape,
                                         {'m': 'safe', 's': op['val']['seed']})
                probe[idx] = v
                newm = probe
            except Exception:
                newm, v = None, 0
            if self.mode == 'r' and m.size > 0:
                self.out.cls('ro-mutator')
                return self.expect_reject(tag + ':ro', lambda: a.__setitem__(idx, v))
            if self.mode == 'r':
                return True    # read-only empty arrays: C11's business, skip here
            if newm is None:
                self.out.cls('rejected-call')
                return self.expect_reject(tag + ':badindex', lambda: a.__setitem__(idx, v))
            if not self.expect_ok(tag, lambda: a.__setitem__(idx, v)):
                return False
            self.m = newm
            return self.observe(tag)
        if o == 'trunc':
            idx = trunc_index(op['i'], len(m))
            by = op.get('by', 'obj')
            tag = f"trunc:{op['i'] if not isinstance(op['i'], int) else ('neg' if op['i'] < 0 else 'pos')}:{empty}"
            self.kinds.append('trunc')
            target = a if by == 'obj' else (self.path if by == 'str' else __import__('pathlib').Path(self.path))
            ok = model_trunc_ok(idx, m)
            if self.mode == 'r' and by == 'obj':
                if m.size == 0:
                    return True   # read-only empty arrays: C11's business
                self.out.cls('ro-mutator')
                return self.expect_reject(tag + ':ro', lambda: darr.truncate_array(target, idx))
            if isinstance(idx, np.integer):
                # NumPy integers: refusing them (state unchanged) and treating them like the equal Python int are both legitimate
                self.out.cls('trunc-npint')
                try:
                    darr.truncate_array(target, idx)
                except Exception:
                    return self.observe(tag + ':rejected')
                if not model_trunc_ok(int(idx), m):
                    self.out.viol('no-raise', tag, f'step {self.stepno}: truncation to {idx!r} of length {len(m)} did not raise')
                    return False
                self.m = m[:int(idx)].copy()
                if by != 'obj':
                    if not self._reopen(tag):
                        return False
                return self.observe(tag)
            if not ok:
                self.out.cls('rejected-call')
                return self.expect_reject(tag, lambda: darr.truncate_array(target, idx))
            prev = m.tobytes()
            if not self.expect_ok(tag, lambda: darr.truncate_array(target, idx)):
                return False
            self.m = m[:idx].copy()
            if len(self.m) == 0:
                self.out.cls('trunc-to-0')
            if by != 'obj':   # the live handle is stale by design after a by-path operation: reopen it
                if not self._reopen(tag):
                    return False
            if 'model' in self.oracles:
                with open(os.path.join(self.path, 'arrayvalues.bin'), 'rb') as f:
                    if f.read() != prev[:self.m.nbytes]:
                        self.out.viol('prefix-changed', tag, f'step {self.stepno}: truncate did not keep exactly the leading bytes')
                        return False
            return self.observe(tag)
        if o == 'trunc-loose':
            # truncation while the array is held open: what it should do is not part of any listed property (the cached map has an
            # outdated length), so only consistency is required: afterwards files, descriptor and a fresh handle must agree.
            idx = trunc_index(op['i'], len(m))
            self.out.cls('truncate-inside-open-context')
            try:
                darr.truncate_array(a, idx)
            except Exception:
                pass
            try:
                fresh = darr.Array(self.path)
                self.m = fresh[:].copy()
            except Exception as e:
                self.out.viol('fresh-open-raised', 'truncate-inside-open-context', f'step {self.stepno}: {type(e).__name__}: {e}')
                return False
            return self.observe('truncate-inside-open-context')
        if o == 'mode':
            self.kinds.append('mode')
            if not self.expect_ok('mode', lambda: setattr(a, 'accessmode', op['m'])):
                return False
            return self.observe('mode')
        if o == 'reopen':
            self.kinds.append('reopen')
            try:
                self.a = darr.Array(self.path, accessmode=op['m'])
            except Exception as e:
                self.out.viol('fresh-open-raised', 'reopen', f'step {self.stepno}: {type(e).__name__}: {e}')
                return False
            return self.observe('reopen')
        if o == 'meta':
            self.kinds.append('meta')
            if self.mode == 'r':
                return True
            k = op['k']
            act = op['a']
            if act == 'refused':
                # an update that has to be refused (a value JSON cannot hold): metadata, metadata.json and README stay as they are
                self.out.cls('meta-update-refused', 'rejected-call')
                bad = {1, 2} if k == 'a' else object()
                return self.expect_reject('meta:refused', (lambda: a.metadata.update({'fine': 1, k: bad})) if k == 'a' else (lambda: a.metadata.__setitem__(k, bad)))
            if act == 'set':
                if not self.meta:
                    self.out.cls('meta-created')
                val = {'v': [1, 2, 3], 's': 'é'} if k == 'a' else 7.5
                if not self.expect_ok('meta:set', lambda: a.metadata.__setitem__(k, val)):
                    return False
                self.meta[k] = val
            elif act == 'del':
                if k not in self.meta:
                    return True
                if not self.expect_ok('meta:pop', lambda: a.metadata.pop(k)):
                    return False
                del self.meta[k]
                if not self.meta:
                    self.out.cls('meta-deleted')
            else:
                for kk in list(self.meta):
                    if not self.expect_ok('meta:pop', lambda: a.metadata.pop(kk)):
                        return False
                    del self.meta[kk]
                    if not self.meta:
                        self.out.cls('meta-deleted')
            return self.observe('meta:' + act)
        if o == 'ctx':
            if self.mode == 'r' or m.size == 0 and op['via'] == 'iterchunks':
                return True
            self.out.cls('ops-inside-open-context')
            ok = True
            self.in_ctx = True
            try:
                if op['via'] == 'open_array':
                    with a.open_array():
                        for inner in op['ops']:
                            ok = ok and self.step(inner)
                            if not ok:
                                break
                else:
                    it = a.iterchunks(chunklen=1)
                    next(it)
                    for inner in op['ops']:
                        ok = ok and self.step(inner)
                        if not ok:
                            break
                    it.close()
            finally:
                self.in_ctx = False
            return ok and self.observe('after-ctx')
        if o == 'copy':
            self.kinds.append('copy')
            cpath = os.path.join(self.d, f'copy{self.stepno}.darr')
            kw = {} if op.get('chunklen') is None else {'chunklen': op['chunklen']}
            if 0 in m.shape[1:] and not kw:
                kw = {'chunklen': 2}          # (rows without elements need an explicit chunk length, DESIGN 8.7 c)
            try:
                c = a.copy(cpath, accessmode='r+', **kw)
            except Exception as e:
                self.out.viol('valid-call-raised', f'copy:{type(e).__name__}', f'step {self.stepno}: {type(e).__name__}: {e}')
                return False
            self.out.cls('copy')
            self.a, self.path = c, cpath      # the history continues on the copy
            return self.observe('copy')
        if o == 'overwrite':
            self.kinds.append('overwrite')
            self.out.cls('overwrite-recreate')
            try:
                self.create(op['start'], overwrite=True, over=op.get('over', 'same'))
            except Exception as e:
                self.out.viol('valid-call-raised', f'overwrite:{type(e).__name__}', f'step {self.stepno}: {type(e).__name__}: {e}')
                return False
            return self.observe('overwrite')
        raise ValueError(o)


def run_array_history(ctx, spec, oracles):
    from .runner import Outcome
    out = Outcome()
    with ctx.scratch() as d:
        run = ArrayRun(spec, d, out, oracles)
        try:
            run.create(spec['start'])
        except Exception as e:
            out.viol('valid-call-raised', f'create:{type(e).__name__}', f'{type(e).__name__}: {e}')
            return out, run
        st_ = spec['start']
        if st_['dt']['bo'] != gens.NATIVE:
            out.cls('nonnative')
        if len(st_['shape']) > 1:
            out.cls('rank>=2')
        if not run.observe('create'):
            return out, run
        prev = None
        lazy = bool(spec.get('lazy'))
        if lazy:
            out.cls('live-handle-observed-lazily')
        ok = True
        for op in spec['ops']:
            was0 = len(run.m) == 0 and prev == 'trunc'
            if was0 and op['o'] in ('append', 'iterappend') and run.mode == 'r+':
                out.cls('trunc0-then-append')
            # lazy histories read the live handle only after the ops flagged 'lo' and at the end (a fresh one after every step)
            run.skip_live = lazy and not op.get('lo', False)
            if not run.step(op):
                ok = False
                break
            prev = op['o']
        run.skip_live = False
        if ok and lazy:
            ok = run.observe('final:live')
        if ok and run.siblings:
            run.check_siblings()
        run.siblings = []
        run.a = None
    return out, run
