"""Entry point: python -m vlib.main <ID> [--tier quick|thorough] [--replay FILE]"""
import os, sys, json, time, glob, argparse, importlib, traceback, warnings


def _import_darr(src):
    src = os.path.realpath(src)
    sys.path.insert(0, src)
    import darr
    where = os.path.realpath(os.path.dirname(darr.__file__))
    if not where.startswith(src + os.sep):
        print(f"HARNESS-ERROR: darr imported from {where}, expected under {src}")
        sys.exit(2)
    return darr


def main(argv=None):
    ap = argparse.ArgumentParser()
    ap.add_argument('prop')
    ap.add_argument('--tier', default=os.environ.get('VERIF_TIER') or 'quick', choices=['quick', 'thorough'])
    ap.add_argument('--replay', default=None)
    ap.add_argument('--procs', type=int, default=None)
    args = ap.parse_args(argv)
    warnings.simplefilter('ignore')
    from . import runner
    prop = args.prop.upper()
    try:
        seed = int(os.environ.get('VERIF_SEED', '1') or '1')
    except ValueError:
        seed = 1
    _import_darr(runner.DARR_SRC)
    os.chdir(runner.HOME)
    sys.path.insert(0, runner.HOME)
    try:
        mod = importlib.import_module(f'checks.{prop.lower()}')
    except ModuleNotFoundError as e:
        print(f"HARNESS-ERROR: no check module for {prop}: {e}")
        return 2
    ctx = runner.Ctx(prop, args.tier, seed)
    t0 = time.time()

    # ---- replay of one file --------------------------------------------
    if args.replay:
        return replay_files(ctx, mod, [args.replay], report_ok=True)

    # ---- regression corpus first ----------------------------------------
    corpus = sorted(glob.glob(os.path.join(runner.HOME, 'replays', prop, '*.json')))
    corpus = [p for p in corpus if not os.path.basename(p).startswith('found-')]
    rc = replay_files(ctx, mod, corpus, report_ok=False)
    if rc != 0:
        return rc
    n_replayed = len(corpus)

    # ---- generated search -------------------------------------------------
    try:
        tasks = mod.tasks(ctx)
        col = runner.run_tasks(ctx, tasks, procs=args.procs)
    except runner.HarnessError as e:
        print(f"HARNESS-ERROR: {e}")
        return 2
    finally:
        ctx.cleanup()
    wall = time.time() - t0
    if col.errors:
        print(f"HARNESS-ERROR: {len(col.errors)} task(s) failed; first:")
        print(col.errors[0][-3000:])
        runner.write_evidence(ctx, mod, col, wall, 0, {'harness_errors': len(col.errors)})
        return 2

    unknown = []
    for sig, b in sorted(col.buckets.items()):
        e = ctx.known.match(b)
        if e is not None:      # cannot happen (excluded in the workers) but be safe
            col.known_seen[sig] += b['count']
        else:
            unknown.append(b)
    for sig in sorted(col.known_seen):
        kind, callsite = sig.split('@', 1)
        e = ctx.known.match({'kind': kind, 'callsite': callsite})
        what = e.get('what', sig) if e else sig
        print(f"KNOWN-FINDING: property={prop} {what} [{sig}; seen {col.known_seen[sig]}x]")
    extra = {'replayed_regressions': n_replayed}
    runner.write_evidence(ctx, mod, col, wall, len(unknown), extra)
    if unknown:
        for b in unknown:
            path = runner.save_found(ctx, b)
            print(f"VIOLATION property={prop} replay={os.path.relpath(path, runner.HOME)}")
            print(f"  kind={b['kind']} callsite={b['callsite']} seen={b['count']}x")
            print(f"  detail: {b['detail'][:600]}")
        return 1
    missing = [c for c in getattr(mod, 'MUST_HIT', []) if col.classes.get(c, 0) == 0]
    if hasattr(mod, 'must_hit'):
        missing = [c for c in mod.must_hit(ctx) if col.classes.get(c, 0) == 0]
    if missing:
        print(f"HARNESS-ERROR: generator self-check failed, classes never hit: {missing}")
        return 2
    print(f"OK property={prop} tier={args.tier} seed={seed} evaluations={col.evaluations} "
          f"distinct_nontrivial={len(col.nontrivial)} wall_s={wall:.1f}")
    return 0


def replay_files(ctx, mod, files, report_ok):
    from . import runner
    bad = 0
    for path in files:
        try:
            with open(path) as f:
                rec = json.load(f)
            spec = rec['spec'] if isinstance(rec, dict) and 'spec' in rec else rec
            # every replay runs in its own forked child: a case that takes the interpreter down is reported, not suffered
            out = runner._isolated(runner._fdwatched(lambda sp: mod.execute(ctx, sp)))(spec)
        except Exception:
            print(f"HARNESS-ERROR: replay of {path} failed:\n{traceback.format_exc()}")
            ctx.cleanup()
            return 2
        unknown = [v for v in out.violations if ctx.known.match(v) is None]
        known = [v for v in out.violations if ctx.known.match(v) is not None]
        for v in known:
            e = ctx.known.match(v)
            print(f"KNOWN-FINDING: property={ctx.prop} {e.get('what')} [{v['kind']}@{v['callsite']}]")
        if unknown:
            bad += 1
            print(f"VIOLATION property={ctx.prop} replay={os.path.relpath(os.path.abspath(path), runner.HOME)}")
            for v in unknown[:3]:
                print(f"  kind={v['kind']} callsite={v['callsite']}\n  detail: {v['detail'][:600]}")
        elif report_ok:
            print(f"OK replay {path}: no violation")
    ctx.cleanup()
    return 1 if bad else 0


if __name__ == '__main__':
    sys.exit(main())
