"""Model-based histories on a Darr RaggedArray (shared by C04, C05, C08).

Oracles:
  'model'  (C04) live + fresh handle equal a list-of-ndarrays model (len, narrays, atom,
           dtype, size, every ra[k], error classes for bad k, iter_arrays triples,
           stored index type)
  'raw'    (C05) independent decoder finds a structurally well-formed directory
           whose subarrays equal the model
  'readme' (C08) top-level, values/ and indices/ README.txt are current
"""
import os, json, re
import numpy as np
from hypothesis import strategies as st
from . import gens, rawdec
from .gens import kind, dt_of
from .hist import check_array_readme, trunc_index, TRUNC_TOKENS

INDEXTYPES = ['int8', 'uint8', 'int16', 'uint16', 'int32', 'uint32', 'int64']
IDXMAX = {t: int(np.iinfo(t).max) for t in INDEXTYPES}


@st.composite
def st_item(draw, max_len=4):
    form = draw(st.sampled_from(['nd', 'nd', 'list', 'otherdt', 'layout']))
    it = {'n': draw(st.sampled_from([0, 0, 1, 2, 3, max_len])), 'seed': draw(st.integers(0, 2 ** 31)), 'form': form}
    if form == 'otherdt':
        it['dt'] = draw(gens.st_dt())
    if form == 'layout':
        it['layout'] = draw(st.sampled_from(gens.LAYOUTS))
    return it


@st.composite
def st_rstart(draw):
    how = draw(st.sampled_from(['as', 'as', 'as', 'as', 'as', 'create']))  # create_raggedarray touches 160 MB of work buffers
    rank = draw(st.integers(0, 2))
    atom = [draw(st.integers(1, 3)) for _ in range(rank)]
    s = {'how': how, 'dt': draw(gens.st_dt()), 'atom': atom, 'indextype': draw(st.sampled_from(INDEXTYPES)),
         'meta': draw(st.sampled_from([None, None, 'dict', 'empty'])), 'mode': draw(st.sampled_from(['r+', 'r+', 'r'])),
         'dtarg': draw(st.booleans()), 'dtspell': draw(st.sampled_from([0, 0, 0] + list(range(1, 16)))), 'owspell': draw(st.sampled_from([0, 0, 1, 2, 3]))}
    if how == 'as':
        n = draw(st.integers(1, 4))
        s['items'] = [draw(st_item()) for _ in range(n)]
        s['gen'] = draw(st.booleans())
    return s


@st.composite
def st_rop(draw, extra=()):
    o = draw(st.sampled_from(['append', 'append', 'iterappend', 'trunc', 'trunc', 'mode', 'reopen', 'read', 'ctx', 'failappend', 'sibling', 'recreate', 'iterappend2d', 'fillmax', 'iterappend-x', 'overfill'] + list(extra)))
    if o == 'append':
        return {'o': 'append', 'item': draw(st_item())}
    if o == 'iterappend':
        n = draw(st.integers(0, 4))
        return {'o': 'iterappend', 'items': [draw(st_item()) for _ in range(n)], 'gen': draw(st.booleans())}
    if o == 'trunc':
        return {'o': 'trunc', 'i': draw(st.sampled_from(TRUNC_TOKENS)), 'by': draw(st.sampled_from(['obj', 'obj', 'str', 'path']))}
    if o == 'mode':
        return {'o': 'mode', 'm': draw(st.sampled_from(['r', 'r+', 'r+']))}
    if o == 'reopen':
        return {'o': 'reopen', 'm': draw(st.sampled_from(['r', 'r+', 'r+']))}
    if o == 'read':
        b = st.one_of(st.none(), st.integers(-4, 12))
        return {'o': 'read', 'triples': [[draw(st.integers(-3, 10)), draw(b), draw(st.sampled_from([1, 1, 2, 3, -1, 0]))]
                                          for _ in range(draw(st.integers(1, 3)))]}
    if o == 'ctx':
        inner = [draw(st.one_of(st.builds(lambda it: {'o': 'append', 'item': it}, st_item()),
                                st.builds(lambda its: {'o': 'iterappend', 'items': its, 'gen': False}, st.lists(st_item(), max_size=2))))
                 for _ in range(draw(st.integers(1, 3)))]
        return {'o': 'ctx', 'ops': inner, 'via': draw(st.sampled_from(['open_arrays', 'iter_arrays']))}
    if o == 'meta':
        return {'o': 'meta', 'a': draw(st.sampled_from(['set', 'set', 'del', 'clear', 'refused'])), 'k': draw(st.sampled_from(['a', 'b']))}
    if o == 'overwrite':
        return {'o': 'overwrite', 'start': draw(st_rstart())}
    if o == 'copy':
        return {'o': 'copy'}
    if o == 'failappend':
        return {'o': 'failappend', 'items': [draw(st_item()) for _ in range(draw(st.integers(0, 3)))],
                'kind': draw(st.sampled_from(['raise', 'badatom', 'unconv', 'interrupt', 'halt', 'lead1'])), 'gen': draw(st.booleans())}
    if o == 'fillmax':
        return {'o': 'fillmax', 'seed': draw(st.integers(0, 2 ** 31))}
    if o == 'overfill':
        return {'o': 'overfill', 'style': draw(st.sampled_from(['append', 'iter', 'iter-gen', 'iter-many', 'iter-ndarray'])), 'over': draw(st.sampled_from([1, 1, 2, 9, 130, 300])),
                'seed': draw(st.integers(0, 2 ** 31))}
    if o == 'iterappend-x':
        return {'o': 'iterappend-x', 'style': draw(st.sampled_from(['from-self', 'from-self', 'gen-sets-mode', 'readcode-inside', 'manyitems', 'manyitems', 'many-empties'])),
                'n': draw(st.sampled_from([130, 130, 300, 1100])), 'seed': draw(st.integers(0, 2 ** 31))}
    if o == 'recreate':
        return {'o': 'recreate', 'how': draw(st.sampled_from(['delete_raggedarray', 'rmtree']))}
    if o == 'iterappend2d':
        return {'o': 'iterappend2d', 'k': draw(st.integers(1, 4)), 'n': draw(st.integers(1, 3)), 'seed': draw(st.integers(0, 2 ** 31))}
    if o == 'sibling':
        return {'o': 'sibling', 'dt': draw(gens.st_dt()), 'atom': [draw(st.integers(1, 3)) for _ in range(draw(st.integers(0, 2)))],
                'indextype': draw(st.sampled_from(INDEXTYPES)), 'items': [draw(st_item()) for _ in range(draw(st.integers(1, 3)))],
                'via': draw(st.sampled_from(['as', 'as', 'copy', 'open']))}
    raise ValueError(o)


def _draw_lazy(draw, spec):
    if draw(st.sampled_from([False, False, True])):
        spec['lazy'] = True
        for op in spec['ops']:
            if draw(st.sampled_from([True, False, False, False])):
                op['lo'] = True
    return spec


@st.composite
def st_ragged_history(draw, max_ops=8, extra=()):
    spec = {'start': draw(st_rstart()), 'ops': [draw(st_rop(extra)) for _ in range(draw(st.integers(1, max_ops)))]}
    return _draw_lazy(draw, spec)


def big_item_specs():
    """One appended subarray above 1, 16 and 64 MiB, of the array's own type and of another one, in C, Fortran, transposed,
    strided and reversed memory layout."""
    for (t, bo, atom), (ot, obo) in ((('int16', '<', [3]), ('float64', '<')), (('float32', '>', []), ('int32', '<')), (('uint8', '<', [2, 2]), ('int64', '>'))):
        rowitems = int(np.prod(atom)) if atom else 1
        for mib in (1, 16, 64):
            n = (mib * 2 ** 20) // (rowitems * np.dtype(ot).itemsize) + 7
            for layout in ('C', 'F', 'T', 'strided', 'neg'):
                if layout in ('F', 'T') and not atom:
                    continue
                if mib == 64 and layout not in ('F', 'neg'):
                    continue
                start = {'how': 'as', 'dt': {'t': t, 'bo': bo}, 'atom': atom, 'indextype': 'int64', 'meta': None, 'mode': 'r+', 'dtarg': True, 'gen': False,
                         'items': [{'n': 2, 'seed': 1, 'form': 'nd'}]}
                big = {'n': n, 'seed': 5, 'form': 'otherdt', 'dt': {'t': ot, 'bo': obo}, 'layout': layout}
                own = {'n': n // 2, 'seed': 6, 'form': 'layout', 'layout': layout}
                yield {'start': start, 'big': f'{mib}MiB', 'ops': [{'o': 'append', 'item': big}, {'o': 'trunc', 'i': 1, 'by': 'obj'},
                                                                    {'o': 'iterappend', 'items': [{'n': 1, 'seed': 7, 'form': 'nd'}, own, big], 'gen': True}]}


GROWTH_TRUNC = [0, 1, 2, 3, 4, 5, -1, -2, 'half']


@st.composite
def st_growth_history(draw, max_ops=12):
    """Histories on ONE handle that grow, shrink and regrow a ragged array around the lengths the README listing
    distinguishes (<= 5, 6, > 6): appends of 1-3 items, truncations to small lengths, failing appends; by-object calls only,
    an occasional reopen."""
    rank = draw(st.integers(0, 1))
    start = {'how': 'as', 'dt': draw(gens.st_dt()), 'atom': [draw(st.integers(1, 3)) for _ in range(rank)],
             'indextype': draw(st.sampled_from(['int64', 'int64', 'int32', 'uint16'])), 'meta': None, 'mode': 'r+', 'dtarg': True,
             'gen': False, 'items': [draw(st_item()) for _ in range(draw(st.integers(1, 8)))]}
    ops = []
    for _ in range(draw(st.integers(3, max_ops))):
        o = draw(st.sampled_from(['append', 'append', 'iterappend', 'iterappend', 'trunc', 'trunc', 'failappend', 'reopen', 'ctx']))
        if o == 'append':
            ops.append({'o': 'append', 'item': draw(st_item())})
        elif o == 'iterappend':
            ops.append({'o': 'iterappend', 'items': [draw(st_item()) for _ in range(draw(st.integers(1, 3)))], 'gen': draw(st.booleans())})
        elif o == 'trunc':
            ops.append({'o': 'trunc', 'i': draw(st.sampled_from(GROWTH_TRUNC)), 'by': 'obj'})
        elif o == 'failappend':
            ops.append({'o': 'failappend', 'items': [draw(st_item()) for _ in range(draw(st.integers(0, 3)))],
                        'kind': draw(st.sampled_from(['raise', 'badatom', 'unconv', 'interrupt', 'halt', 'lead1'])), 'gen': True})
        elif o == 'ctx':
            ops.append({'o': 'ctx', 'via': draw(st.sampled_from(['open_arrays', 'iter_arrays'])),
                        'ops': [{'o': 'append', 'item': draw(st_item())} for _ in range(draw(st.integers(1, 3)))]})
        else:
            ops.append({'o': 'reopen', 'm': 'r+'})
    return _draw_lazy(draw, {'start': start, 'ops': ops, 'growthgen': True})


def build_item(it, dt, atom):
    """Python object passed to Darr for an item, given the ragged dtype and atom."""
    shape = (it['n'],) + tuple(atom)
    form = it['form']
    if form == 'list' and it['n'] == 0 and atom:
        form = 'nd'            # [] cannot express a zero-length item of a multi-dimensional atom
    if form == 'nd':
        return gens.build_array(dt, shape, {'m': 'raw', 's': it['seed']})
    if form == 'layout':
        return gens.apply_layout(gens.build_array(dt, shape, {'m': 'raw', 's': it['seed']}), it['layout'])
    if form == 'otherdt':
        odt = dt_of(it['dt'])
        x = gens.build_array(odt, shape, {'m': gens.cast_mode(it['dt']['t'], dt.name), 's': it['seed']})
        return gens.apply_layout(x, it['layout']) if it.get('layout') else x
    if form == 'list':
        x = gens.build_array(dt, shape, {'m': 'safe', 's': it['seed']})
        return x.astype(dt.newbyteorder('=')).tolist()
    raise ValueError(form)


def model_item(x, dt):
    return np.ascontiguousarray(np.asarray(x, dtype=dt)).astype(dt)


def ragged_readme_fields(txt):
    f = {}
    mo = re.search(r'sequence of (\d+)\s+subarrays', txt)
    f['n'] = int(mo.group(1)) if mo else None
    f['dims'] = [(int(a), tuple(int(x) for x in b.replace(' ', '').split(',') if x))
                 for a, b in re.findall(r'^    (\d+): \((.*)\)$', txt, re.M)]
    f['ellipsis'] = bool(re.search(r'^    \.\.\.$', txt, re.M))
    mt = re.search(r'consists of\s+(\w+)\s+numbers', txt)
    f['numtype'] = mt.group(1) if mt else None
    return f


class RaggedRun:
    def __init__(self, spec, d, out, oracles):
        self.spec, self.d, self.out, self.oracles = spec, d, out, set(oracles)
        self.path = os.path.join(d, 'ra.darr')
        self.ra = None
        self.m = []
        self.dt = None
        self.atom = ()
        self.indextype = 'int64'
        self.meta = {}
        self.stepno = 0
        self.kinds = []
        self.nmut = 0
        self.siblings = []      # other ragged arrays alive in the same process: (handle, path, dtype, atom, model list)

    def check_siblings(self):
        """The other arrays created during the history are still what they were (whatever the objects share must not leak)."""
        import darr
        for h, path, dt, atom, model in self.siblings:
            try:
                subs, values, indices, top = rawdec.decode_ragged(path)
            except rawdec.FormatError as e:
                self.out.viol('not-well-formed', 'sibling-array', str(e))
                return False
            ok = len(subs) == len(model) and values.dtype.str == dt.str and tuple(values.shape[1:]) == tuple(atom) and \
                all(a.shape == b.shape and a.tobytes() == b.tobytes() for a, b in zip(subs, model))
            try:
                ok = ok and len(h) == len(model) and np.dtype(h.dtype).str == dt.str and \
                    all(h[k].tobytes() == model[k].tobytes() for k in range(len(model)))
                fresh = darr.RaggedArray(path)
                ok = ok and len(fresh) == len(model) and tuple(fresh.atom) == tuple(atom)
            except Exception as e:
                self.out.viol('read-raised', 'sibling-array', f'{type(e).__name__}: {e}')
                return False
            if not ok:
                self.out.viol('sibling-array-changed', 'sibling-array', f'{path}: no longer equal to what was stored in it')
                return False
        return True

    def total(self):
        return sum(len(x) for x in self.m)

    def create(self, start, overwrite=False):
        import darr
        dt = dt_of(start['dt'])
        atom = tuple(start['atom'])
        md = {'a': 1, 'n': {'x': [1, 'é']}} if start['meta'] == 'dict' else ({} if start['meta'] == 'empty' else None)
        kw = dict(overwrite=gens.spell_true(start.get('owspell', 0))) if overwrite else {}
        dtsp = gens.spell_dtype(dt, start.get('dtspell', 0))
        if start.get('dtspell') or (overwrite and start.get('owspell')):
            self.out.cls('argument-spelling')
        self.indextype = start['indextype']
        if start['how'] == 'create':
            self.ra = darr.create_raggedarray(self.path, atom=atom, dtype=dtsp, metadata=md, accessmode=start['mode'],
                                              indextype=start['indextype'], **kw)
            self.m = []
            self.dt = dt
        else:
            first = build_item(start['items'][0], dt, atom)
            # without an explicit dtype the first item fixes it
            ddt = dt if start['dtarg'] else np.asarray(first).dtype
            self.dt = np.dtype(ddt)
            items = [first] + [build_item(it, self.dt, atom) for it in start['items'][1:]]
            it = (x for x in items) if start.get('gen') else items
            self.ra = darr.asraggedarray(self.path, it, dtype=(dtsp if start['dtarg'] else None), metadata=md,
                                         accessmode=start['mode'], indextype=start['indextype'], **kw)
            self.m = [model_item(x, self.dt) for x in items]
        self.atom = atom
        self.meta = dict(md) if md else {}

    @property
    def mode(self):
        return self.ra.accessmode

    # ------------------------------------------------------------ oracles
    def observe(self, tag, full=True):
        import darr
        out, m = self.out, self.m
        n = len(m)
        if 'model' in self.oracles:
            # while an enclosing context holds the (fixed-shape) memory maps open, only a fresh handle can see new data
            handles = [] if (getattr(self, 'in_ctx', False) or getattr(self, 'skip_live', False)) else [('live', self.ra)]
            try:
                handles.append(('fresh', darr.RaggedArray(self.path)))
            except Exception as e:
                out.viol('fresh-open-raised', tag, f'step {self.stepno}: {type(e).__name__}: {e}')
                return False
            for hn, h in handles:
                try:
                    state = (len(h), h.narrays, tuple(h.atom), np.dtype(h.dtype).str, h.size)
                except Exception as e:
                    out.viol('read-raised', f'{tag}:{hn}', f'step {self.stepno}: {type(e).__name__}: {e}')
                    return False
                want = (n, n, tuple(self.atom), self.dt.str, self.total() * int(np.prod(self.atom, dtype=int)))
                if state != want:
                    out.viol('state-mismatch', f'{tag}:{hn}', f'step {self.stepno}: (len,narrays,atom,dtype,size)={state} want {want}')
                    return False
                ks = list(range(-n, n))
                if n > 300:       # long arrays: both ends, around the 128 / 256 / 4096 marks, and a stride in between
                    ks = sorted(set(list(range(-n, -n + 4)) + list(range(-4, 4)) + list(range(n - 4, n)) +
                                    [k_ for c_ in (127, 128, 255, 256, 1024, 4096) for k_ in (c_ - 1, c_, -c_, -c_ - 1) if -n <= k_ < n] +
                                    list(range(0, n, max(1, n // 60)))))
                for k in ks:
                    try:
                        got = h[k]
                    except Exception as e:
                        out.viol('read-raised', f'{tag}:{hn}', f'step {self.stepno}: ra[{k}] raised {type(e).__name__}: {e}')
                        return False
                    w = m[k]
                    if not isinstance(got, np.ndarray) or np.dtype(got.dtype).str != w.dtype.str or got.shape != w.shape \
                            or got.tobytes() != w.tobytes():
                        out.viol('subarray-mismatch', f'{tag}:{hn}',
                                 f'step {self.stepno}: ra[{k}] = {getattr(got, "shape", None)} {got!r:.120} want {w.shape} {w!r:.120}')
                        return False
                if full:
                    for k, exc in ((n, IndexError), (-n - 1, IndexError), (1.0, TypeError), ('a', TypeError),
                                   (None, TypeError), (slice(0, 1), TypeError)):
                        try:
                            h[k]
                        except exc:
                            pass
                        except Exception as e:
                            out.viol('wrong-exception', f'getitem:{type(k).__name__}', f'ra[{k!r}] raised {type(e).__name__}, want {exc.__name__}')
                            return False
                        else:
                            out.viol('no-raise', f'getitem:{type(k).__name__}', f'ra[{k!r}] on length {n} did not raise')
                            return False
                    if n:
                        for k in (np.int64(n - 1), np.uint8(0), np.int16(-1), np.int8(-1), np.int8(-min(n, 128)), np.int16(-min(n, 300))):
                            try:
                                got = h[k]
                                if got.tobytes() != m[int(k)].tobytes() or got.shape != m[int(k)].shape:
                                    out.viol('subarray-mismatch', f'{tag}:{hn}:npint', f'ra[{k!r}]')
                                    return False
                            except Exception as e:
                                out.viol('read-raised', f'{tag}:{hn}:npint', f'ra[{type(k).__name__}({k})] raised {type(e).__name__}: {e}')
                                return False
            try:
                with open(os.path.join(self.path, 'indices', 'arraydescription.json')) as f:
                    it = json.load(f).get('numtype')
            except Exception as e:
                it = f'<{e}>'
            if it != self.indextype:
                out.viol('indextype-not-stored', tag, f'step {self.stepno}: requested {self.indextype}, stored {it}')
                return False
        if 'raw' in self.oracles:
            try:
                subs, values, indices, top = rawdec.decode_ragged(self.path)
            except rawdec.FormatError as e:
                out.viol('not-well-formed', tag, f'step {self.stepno}: {e}')
                return False
            if len(subs) != n:
                out.viol('raw-decode-differs-from-model', tag, f'step {self.stepno}: {len(subs)} subarrays, model has {n}')
                return False
            if values.dtype.str != self.dt.str or tuple(values.shape[1:]) != tuple(self.atom):
                out.viol('raw-decode-differs-from-model', tag, f'step {self.stepno}: values {values.dtype.str}{values.shape} model {self.dt.str} atom {self.atom}')
                return False
            for k in range(n):
                if subs[k].shape != m[k].shape or subs[k].tobytes() != m[k].tobytes():
                    out.viol('raw-decode-differs-from-model', tag, f'step {self.stepno}: subarray {k}')
                    return False
            if n == 0 and self.nmut:
                out.cls('n=0-after-having-subarrays')
            if n and len(m[-1]) == 0:
                out.cls('trailing-zero-length')
        if 'readme' in self.oracles:
            if not self.check_readme(tag):
                return False
        return True

    def check_readme(self, tag):
        import darr
        try:
            from darr.raggedarray import readcodetxt
        except ImportError:      # renamed in a refactoring: fall back to the independent field extraction alone
            readcodetxt = None
            self.out.cls('readme:no-reference-generator')
        out, m = self.out, self.m
        n = len(m)
        rp = os.path.join(self.path, 'README.txt')
        if not os.path.isfile(rp):
            out.viol('readme-missing', 'ragged:' + tag, rp)
            return False
        with open(rp, 'r', encoding='utf-8') as f:
            txt = f.read()
        try:
            fresh = darr.RaggedArray(self.path)
            want = readcodetxt(fresh) if readcodetxt else txt
        except Exception as e:
            out.viol('fresh-open-raised', tag, f'{type(e).__name__}: {e}')
            return False
        if txt != want:
            a, b = txt.splitlines(), want.splitlines()
            i = next((i for i, (x, y) in enumerate(zip(a, b)) if x != y), min(len(a), len(b)))
            if getattr(self, 'in_ctx', False):
                tag = 'append-while-arrays-held-open'
            out.viol('readme-stale', 'ragged:' + tag, f'step {self.stepno}: line {i}: on disk {a[i] if i < len(a) else "<eof>"!r} / regenerated {b[i] if i < len(b) else "<eof>"!r}')
            return False
        f = ragged_readme_fields(txt)
        if f['n'] is not None and f['n'] != n:
            out.viol('readme-wrong-field', 'ragged:count:' + tag, f"README says {f['n']} subarrays, there are {n}")
            return False
        wantdims = [(k, (len(m[k]),) + tuple(self.atom)) for k in range(min(n, 5))]
        if n > 5:
            wantdims.append((n - 1, (len(m[-1]),) + tuple(self.atom)))
        if (f['dims'] or not n) and f['dims'] != wantdims:
            out.viol('readme-wrong-field', 'ragged:dims:' + tag, f"README lists {f['dims']}, current {wantdims}")
            return False
        if f['numtype'] is not None and f['numtype'] != self.dt.name:
            out.viol('readme-wrong-field', 'ragged:numtype', f"README says {f['numtype']}, data are {self.dt.name}")
            return False
        for lang in fresh.readcodelanguages:
            if fresh.readcode(lang) not in txt:
                out.viol('readme-missing-code', 'ragged:' + lang, f'current readcode({lang!r}) not in README')
                return False
        if n in (5, 6, 7):
            out.cls(f'ragged-len-{n}')
        # sub-array READMEs
        vals = np.concatenate(m, axis=0).astype(self.dt) if m else np.zeros((0,) + tuple(self.atom), self.dt)
        idx = np.zeros((n, 2), dtype=self.indextype)
        pos = 0
        for k in range(n):
            idx[k] = (pos, pos + len(m[k]))
            pos += len(m[k])
        before = len(out.violations)
        check_array_readme(out, os.path.join(self.path, 'values'), vals, False, 'values:' + tag)
        check_array_readme(out, os.path.join(self.path, 'indices'), idx, False, 'indices:' + tag)
        return len(out.violations) == before

    # ------------------------------------------------------------ steps
    def _reopen(self, tag):
        import darr
        try:
            self.ra = darr.RaggedArray(self.path, accessmode=self.mode)
            return True
        except Exception as e:
            self.out.viol('fresh-open-raised', tag, f'step {self.stepno}: {type(e).__name__}: {e}')
            return False

    def expect_ok(self, tag, fn):
        try:
            fn()
            return True
        except Exception as e:
            self.out.viol('valid-call-raised', f'{tag}:{type(e).__name__}', f'step {self.stepno}: {type(e).__name__}: {str(e)[:300]}')
            return False

    def expect_reject(self, tag, fn):
        try:
            fn()
        except Exception:
            return self.observe(tag + ':after-reject', full=False)
        self.out.viol('no-raise', tag, f'step {self.stepno}: call the model rejects did not raise')
        return False

    def fits(self, add):
        return self.total() + add <= IDXMAX[self.indextype]

    def step(self, op):
        import darr
        o = op['o']
        self.stepno += 1
        ra, m = self.ra, self.m
        if self.siblings and not getattr(self, 'in_ctx', False):
            # the oracles open fresh handles on the array under test; make a sibling the most recently constructed object again,
            # so that the step starts in the state 'another array was opened last'
            h_, sp_, sdt_, sat_, smodel_ = self.siblings[-1]
            try:
                self.siblings[-1] = (darr.RaggedArray(sp_), sp_, sdt_, sat_, smodel_)
            except Exception as e:
                self.out.viol('read-raised', 'sibling-array', f'{type(e).__name__}: {e}')
                return False
        if o == 'append':
            if self.mode == 'r':
                return True
            x = build_item(op['item'], self.dt, self.atom)
            mi = model_item(x, self.dt)
            if not self.fits(len(mi)):
                return True
            tag = f"append:{op['item']['form']}:{'zero' if len(mi) == 0 else 'n'}:{'empty' if not m else 'nonempty'}"
            self.kinds.append('append')
            if not m and self.nmut and 'trunc' in self.kinds[-3:]:
                self.out.cls('trunc0-then-append')
            if not self.expect_ok(tag, lambda: ra.append(x)):
                return False
            self.m = m + [mi]
            self.nmut += 1
            return self.observe(tag)
        if o == 'iterappend':
            if self.mode == 'r':
                return True
            xs = [build_item(it, self.dt, self.atom) for it in op['items']]
            mis = [model_item(x, self.dt) for x in xs]
            if not self.fits(sum(len(x) for x in mis)):
                return True
            tag = f"iterappend:{len(xs)}:{'empty' if not m else 'nonempty'}"
            self.kinds.append('iterappend')
            it = (x for x in xs) if op['gen'] else xs
            if not m and self.nmut and 'trunc' in self.kinds[-3:] and xs:
                self.out.cls('trunc0-then-append')
            if not self.expect_ok(tag, lambda: ra.iterappend(it)):
                return False
            self.m = m + mis
            self.nmut += 1
            return self.observe(tag)
        if o == 'iterappend-x':
            # unusual but legitimate item sources for ONE iterappend call:
            #   manyitems       - n tiny subarrays (more than 127 / 255 / 1024 / 4096 of them)
            #   from-self       - the items are computed lazily from the array's own subarrays (ra.iter_arrays() is alive meanwhile)
            #   gen-sets-mode   - the generator switches the handle to 'r' half-way (the call was started in r+ and completes)
            #   readcode-inside - the generator asks the handle for read code and readcodelanguages half-way
            if self.mode == 'r' or getattr(self, 'in_ctx', False):
                return True
            style = op['style']
            self.kinds.append('iterappend')
            atom = tuple(self.atom)
            mk = lambda k, sd: gens.build_array(self.dt, (k,) + atom, {'m': 'raw', 's': op['seed'] + sd})
            if style == 'manyitems':
                n_ = op['n']
                if not self.fits(n_ + 8):
                    n_ = max(0, min(n_, IDXMAX[self.indextype] - self.total() - 8))
                if n_ < 3:
                    return True
                pool = mk(n_, 1)
                new = [pool[i:i + (i % 2)] if i % 7 else pool[i:i + 1] for i in range(n_)]     # lengths 0 and 1
                src = (x for x in new)
            elif style == 'many-empties':
                # more subarrays than the index type has values (130 / 300 / 1100 of them), all without rows: the index type bounds
                # positions in the values array, not the number of subarrays
                n_ = op['n']
                new = [mk(0, 1) for _ in range(n_)]
                new[n_ // 2] = mk(1, 2) if self.fits(1) else new[n_ // 2]
                src = (x for x in new)
            elif style == 'from-self':
                if not m or not self.fits(self.total()):
                    return True
                new = [model_item(x, self.dt) for x in m]
                src = (np.ascontiguousarray(x) for x in ra.iter_arrays())
            elif style == 'gen-sets-mode':
                new = [mk(1, 1), mk(2, 2)]
                if not self.fits(3):
                    return True

                def src():
                    yield new[0]
                    ra.accessmode = 'r'
                    yield new[1]
                src = src()
            else:
                new = [mk(1, 1), mk(0, 2), mk(2, 3)]
                if not self.fits(3):
                    return True

                def src():
                    yield new[0]
                    ra.readcodelanguages
                    ra.readcode('numpymemmap')
                    ra.readcode('matlab')
                    yield new[1]
                    yield new[2]
                src = src()
            self.out.cls('iterappend:' + style)
            tag = f'iterappend-x:{style}'
            ok_ = self.expect_ok(tag, lambda: ra.iterappend(src))
            if style == 'gen-sets-mode':
                ra.accessmode = 'r+'
            if not ok_:
                return False
            self.m = m + [model_item(x, self.dt) for x in new]
            self.nmut += 1
            return self.observe(tag)
        if o == 'fillmax':
            # an append that brings the number of stored rows to EXACTLY the largest value the index type can hold: legal
            room = IDXMAX[self.indextype] - self.total()
            if self.mode == 'r' or getattr(self, 'in_ctx', False) or not (0 < room <= 70000):
                return True
            x = gens.build_array(self.dt, (room,) + tuple(self.atom), {'m': 'safe', 's': op['seed']})
            self.kinds.append('append')
            self.out.cls('append-fills-index-type-exactly')
            if not self.expect_ok('append:fill-to-index-max', lambda: ra.append(x)):
                return False
            self.m = m + [model_item(x, self.dt)]
            self.nmut += 1
            return self.observe('append:fill-to-index-max')
        if o == 'overfill':
            # an append (or one iterappend call) that would bring the number of stored value rows ABOVE the largest number the index
            # type can hold.  Nothing about the outcome is demanded except what C04/C05 state: if the call raises, the complete
            # subarrays before the one that does not fit are kept and nothing else; if it does not raise, everything was stored.
            room = IDXMAX[self.indextype] - self.total()
            if self.mode == 'r' or getattr(self, 'in_ctx', False) or not (0 <= room <= 70000):
                return True
            atom = tuple(self.atom)
            mk = lambda k, sd: gens.build_array(self.dt, (k,) + atom, {'m': 'safe', 's': op['seed'] + sd})
            style, over = op['style'], op['over']
            self.kinds.append('append')
            self.out.cls('append-beyond-index-type', 'overfill:' + style)
            tag = 'overfill:' + style
            if style == 'append':
                new = [mk(room + over, 1)]
                call = lambda: ra.append(new[0])
                nfit = 0
            elif style == 'iter-ndarray':     # the iterable is ONE numeric ndarray whose rows are the subarrays (3 values each)
                k = (room + over + 2) // 3 + 1
                block = mk(3 * k, 1).reshape((k, 3) + atom)
                new = [block[i] for i in range(k)]
                nfit = room // 3
                call = lambda: ra.iterappend(block)
            else:
                if style == 'iter-many':      # many short subarrays, the limit is crossed somewhere in the middle
                    k = room + over
                    pool = mk(k + 2, 1)
                    new, pos = [], 0
                    while pos < k:
                        ln = 1 + (len(new) % 3 == 0)
                        new.append(pool[pos:pos + ln])
                        pos += ln
                else:
                    first = min(room, 2)
                    new = [mk(first, 1), mk(0, 2), mk(room - first + over, 3), mk(1, 4)]
                nfit, tot = 0, 0
                for x in new:
                    if tot + len(x) > room:
                        break
                    tot += len(x)
                    nfit += 1
                src = (x for x in new) if style != 'iter' else list(new)
                call = lambda: ra.iterappend(src)
            try:
                call()
            except Exception:
                self.out.cls('overfill-raised')
                kept = new[:nfit]
            else:
                kept = new
            self.m = m + [model_item(x, self.dt) for x in kept]
            if kept:
                self.nmut += 1
            return self.observe(tag)
        if o == 'iterappend2d':
            # the iterable is ONE numeric ndarray whose rows (first axis) are the subarrays: k subarrays of n values each
            if self.mode == 'r':
                return True
            block = gens.build_array(self.dt, (op['k'], op['n']) + tuple(self.atom), {'m': 'raw', 's': op['seed']})
            if not self.fits(op['k'] * op['n']):
                return True
            self.kinds.append('iterappend')
            self.out.cls('iterappend:ndarray-as-iterable')
            tag = f"iterappend2d:{'empty' if not m else 'nonempty'}"
            if not self.expect_ok(tag, lambda: ra.iterappend(block)):
                return False
            self.m = m + [model_item(block[i], self.dt) for i in range(op['k'])]
            self.nmut += 1
            return self.observe(tag)
        if o == 'recreate':
            # the ragged array is deleted and the same one (same start state) is created again at the same path in the same process
            if getattr(self, 'in_ctx', False) or self.path != os.path.join(self.d, 'ra.darr'):
                return True
            self.kinds.append('recreate')
            self.out.cls('deleted-and-created-again-at-the-same-path')
            try:
                if op['how'] == 'delete_raggedarray':
                    self.ra.accessmode = 'r+'
                    darr.delete_raggedarray(self.ra)
                else:
                    import shutil
                    self.ra = None
                    shutil.rmtree(self.path)
                self.create(self.spec['start'])
            except Exception as e:
                self.out.viol('valid-call-raised', f'recreate:{type(e).__name__}', f'step {self.stepno}: {type(e).__name__}: {e}')
                return False
            self.nmut = 0
            return self.observe('recreate')
        if o == 'sibling':
            # another ragged array (other dtype, atom, index type) comes to life in the same process and stays alive
            self.out.cls('sibling-object-alive')
            sdt, satom = dt_of(op['dt']), tuple(op['atom'])
            spath = os.path.join(self.d, f'sib{self.stepno}.darr')
            items = [build_item(it, sdt, satom) for it in op['items']]
            try:
                if op['via'] == 'copy' and m and not getattr(self, 'in_ctx', False):
                    h = ra.copy(spath, accessmode='r+')
                    sdt, satom, model = self.dt, self.atom, [x.copy() for x in m]
                else:
                    h = darr.asraggedarray(spath, items, dtype=sdt, indextype=op['indextype'], accessmode='r+', metadata={'sib': 1})
                    model = [model_item(x, sdt) for x in items]
                    if op['via'] == 'open':
                        h = darr.RaggedArray(spath)
            except Exception as e:
                self.out.viol('valid-call-raised', f'sibling:{type(e).__name__}', f'step {self.stepno}: {type(e).__name__}: {e}')
                return False
            self.siblings.append((h, spath, sdt, satom, model))
            return self.observe('after-sibling', full=False)
        if o == 'failappend':
            # an iterappend that fails after len(items) good items: the call must raise and exactly the good items are kept
            if self.mode == 'r' or getattr(self, 'in_ctx', False):
                return True
            xs = [build_item(it, self.dt, self.atom) for it in op['items']]
            mis = [model_item(x, self.dt) for x in xs]
            if not self.fits(sum(len(x) for x in mis) + 4):
                return True
            fk = op['kind']
            tag = f"failappend:{fk}:{len(xs)}"
            self.kinds.append('failappend')
            self.out.cls('failed-append-in-history', f'failed-append:{fk}')

            class _Boom(Exception):
                pass

            class _Halt(BaseException):
                pass
            # lead1: a valid subarray wrapped in one more axis of length 1 - shape (1, 3) + atom - which is one rank too many
            bad = np.zeros((2,) + tuple(self.atom) + (2,), self.dt) if fk == 'badatom' else [['x', 'y']] if fk == 'unconv' else \
                np.ones((1, 3) + tuple(self.atom), self.dt) if fk == 'lead1' else None

            def src():
                for x in xs:
                    yield x
                if bad is None:
                    raise (KeyboardInterrupt() if fk == 'interrupt' else _Halt('stop') if fk == 'halt' else _Boom('data source failed'))      # interrupt: Ctrl-C while the source runs; halt: an application's own BaseException
                yield bad
            it = src() if (op.get('gen', True) or bad is None) else xs + [bad]
            try:
                ra.iterappend(it)
            except BaseException:
                pass
            else:
                self.out.viol('no-raise', tag, f'step {self.stepno}: failing iterappend did not raise')
                return False
            self.m = m + mis
            if mis:
                self.nmut += 1
            return self.observe(tag)
        if o == 'trunc':
            n = len(m)
            idx = trunc_index(op['i'], n)
            by = op.get('by', 'obj')
            if self.mode == 'r' and by == 'obj':
                return True
            target = ra if by == 'obj' else (self.path if by == 'str' else __import__('pathlib').Path(self.path))
            ok = type(idx) is int and 0 <= len(m[:idx]) < n
            tag = f"trunc:{op['i'] if not isinstance(op['i'], int) else ('neg' if op['i'] < 0 else 'pos')}"
            self.kinds.append('trunc')
            if isinstance(idx, np.integer):
                # NumPy integers: refusing them (state unchanged) and treating them like the equal Python int are both legitimate
                self.out.cls('trunc-npint')
                try:
                    darr.truncate_raggedarray(target, idx)
                except Exception:
                    return self.observe(tag + ':rejected', full=False)
                if not (0 <= int(idx) < n):
                    self.out.viol('no-raise', tag, f'step {self.stepno}: truncation to {idx!r} of length {n} did not raise')
                    return False
                self.m = m[:int(idx)]
                self.nmut += 1
                if by != 'obj':
                    if not self._reopen(tag):
                        return False
                return self.observe(tag)
            if not ok:
                self.out.cls('rejected-call')
                return self.expect_reject(tag, lambda: darr.truncate_raggedarray(target, idx))
            removed = m[idx:] if idx >= 0 else m[idx:]
            newm = m[:idx]
            if all(len(x) == 0 for x in m[len(newm):]):
                self.out.cls('trunc-removes-only-zero-length')
            if not self.expect_ok(tag, lambda: darr.truncate_raggedarray(target, idx)):
                return False
            self.m = newm
            self.nmut += 1
            if by != 'obj':
                if not self._reopen(tag):
                    return False
            return self.observe(tag)
        if o == 'mode':
            self.kinds.append('mode')
            if not self.expect_ok('mode', lambda: setattr(ra, 'accessmode', op['m'])):
                return False
            return self.observe('mode', full=False)
        if o == 'reopen':
            self.kinds.append('reopen')
            self.out.cls('reopen-between-ops')
            try:
                self.ra = darr.RaggedArray(self.path, accessmode=op['m'])
            except Exception as e:
                self.out.viol('fresh-open-raised', 'reopen', f'step {self.stepno}: {type(e).__name__}: {e}')
                return False
            return self.observe('reopen', full=False)
        if o == 'read':
            if 'model' not in self.oracles:
                return True
            self.kinds.append('read')
            n = len(m)
            for s, e, stp in op['triples']:
                want, wexc = [], None
                try:
                    for i in range(s, n if e is None else e, stp):
                        if not -n <= i < n:
                            raise IndexError(i)
                        want.append(m[i])
                except (IndexError, ValueError) as ex:
                    wexc = type(ex)
                got, gexc = [], None
                try:
                    for x in ra.iter_arrays(startindex=s, endindex=e, stepsize=stp):
                        got.append(x)
                except Exception as ex:
                    gexc = type(ex)
                self.out.cls('iter_arrays:' + ('raises' if wexc else 'ok'))
                if stp not in (1, 0) and not wexc:
                    self.out.cls('iter_arrays:step!=1')
                if wexc != gexc and not (wexc and gexc and issubclass(gexc, wexc)):
                    self.out.viol('iter_arrays-exception', f'iter_arrays:{wexc.__name__ if wexc else "ok"}',
                                  f'iter_arrays({s},{e},{stp}) on length {n}: raised {gexc}, model {wexc}')
                    return False
                if len(got) != len(want) or any(g.shape != w.shape or g.tobytes() != w.tobytes() or
                                                np.dtype(g.dtype).str != w.dtype.str for g, w in zip(got, want)):
                    self.out.viol('iter_arrays-mismatch', 'iter_arrays', f'iter_arrays({s},{e},{stp}) on length {n}: {len(got)} items, model {len(want)}')
                    return False
            return True
        if o == 'ctx':
            # mutating operations issued while the arrays are held open by an enclosing context / a running iterator
            if self.mode == 'r':
                return True
            self.out.cls('ops-inside-open-context')
            ok = True
            self.in_ctx = True
            if op['via'] == 'open_arrays' or not m:
                with ra.open_arrays():
                    for inner in op['ops']:
                        ok = ok and self.step(inner)
                        if not ok:
                            break
            else:
                it = ra.iter_arrays()
                next(it)
                for inner in op['ops']:
                    ok = ok and self.step(inner)
                    if not ok:
                        break
                it.close()
            self.in_ctx = False
            return ok and self.observe('after-ctx', full=False)
        if o == 'meta':
            self.kinds.append('meta')
            if self.mode == 'r':
                return True
            k, act = op['k'], op['a']
            if act == 'refused':
                # an update that has to be refused (a value JSON cannot hold): metadata, metadata.json and README stay as they are
                self.out.cls('meta-update-refused', 'rejected-call')
                bad = {1, 2} if k == 'a' else object()
                return self.expect_reject('meta:refused', (lambda: ra.metadata.update({'fine': 1, k: bad})) if k == 'a' else (lambda: ra.metadata.__setitem__(k, bad)))
            if act == 'set':
                val = {'v': [1, 2, 3], 's': 'é'} if k == 'a' else 7.5
                if not self.expect_ok('meta:set', lambda: ra.metadata.__setitem__(k, val)):
                    return False
                self.meta[k] = val
            else:
                for kk in ([k] if act == 'del' else list(self.meta)):
                    if kk in self.meta:
                        if not self.expect_ok('meta:pop', lambda: ra.metadata.pop(kk)):
                            return False
                        del self.meta[kk]
            return self.observe('meta:' + act, full=False)
        if o == 'overwrite':
            self.kinds.append('overwrite')
            self.out.cls('overwrite-recreate')
            try:
                self.create(op['start'], overwrite=True)
            except Exception as e:
                self.out.viol('valid-call-raised', f'overwrite:{type(e).__name__}', f'step {self.stepno}: {type(e).__name__}: {e}')
                return False
            self.nmut = 0
            return self.observe('overwrite')
        if o == 'copy':
            self.kinds.append('copy')
            if not m:
                return True   # copying a ragged array without subarrays: C15
            cpath = os.path.join(self.d, f'copy{self.stepno}.darr')
            try:
                c = ra.copy(cpath, accessmode='r+')
            except Exception as e:
                self.out.viol('valid-call-raised', f'copy:{type(e).__name__}', f'step {self.stepno}: {type(e).__name__}: {e}')
                return False
            self.out.cls('copy')
            # continue the history on the copy
            self.ra, self.path = c, cpath
            self.indextype = 'int64'
            self.meta = dict(self.meta)
            return self.observe('copy')
        raise ValueError(o)


def run_ragged_history(ctx, spec, oracles):
    from .runner import Outcome
    out = Outcome()
    with ctx.scratch() as d:
        run = RaggedRun(spec, d, out, oracles)
        s = spec['start']
        try:
            run.create(s)
        except Exception as e:
            out.viol('valid-call-raised', f"create:{s['how']}:{type(e).__name__}", f'{type(e).__name__}: {e}')
            return out, run
        out.cls('how:' + s['how'], 'indextype:' + s['indextype'], f"atomrank:{len(s['atom'])}")
        if s['dt']['bo'] != gens.NATIVE:
            out.cls('nonnative')
        if any(len(x) == 0 for x in run.m):
            out.cls('zero-length-subarray')
        lazy = bool(spec.get('lazy'))
        if lazy:
            out.cls('live-handle-observed-lazily')
        if run.observe('create:' + s['how']):
            ok = True
            for op in spec['ops']:
                # lazy histories look at the live handle only after the ops flagged 'lo' and at the end, so that anything the
                # handle caches at one length survives unobserved shrink/regrow steps (a fresh handle is compared after every step)
                run.skip_live = lazy and not op.get('lo', False)
                if not run.step(op):
                    ok = False
                    break
                if any(len(x) == 0 for x in run.m):
                    out.cls('zero-length-subarray')
            run.skip_live = False
            if ok and lazy:
                ok = run.observe('final:live')
            if ok and run.siblings:
                run.check_siblings()
        run.siblings = []
        run.ra = None
    return out, run
