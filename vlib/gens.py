"""Spec-first generators shared by the checks.

Everything a strategy returns is plain JSON (dicts/lists/str/int); `build_*`
functions turn a spec deterministically into NumPy objects.  Element values for
larger arrays are expanded from a Hypothesis-drawn seed by a fixed PRNG (PCG64),
so a spec is a complete, replayable description of the case.
"""
import sys
import numpy as np
from hypothesis import strategies as st

NUMTYPES = ['int8', 'int16', 'int32', 'int64', 'uint8', 'uint16', 'uint32', 'uint64',
            'float16', 'float32', 'float64', 'complex64', 'complex128']
INTTYPES = NUMTYPES[:8]
FLOATTYPES = NUMTYPES[8:11]
CPLXTYPES = NUMTYPES[11:]
BYTEORDERS = ['<', '>']
NATIVE = '<' if sys.byteorder == 'little' else '>'


def kind(t):
    return 'i' if t.startswith('int') else 'u' if t.startswith('uint') else 'c' if t.startswith('complex') else 'f'


def mkdtype(t, bo='<'):
    return np.dtype(t).newbyteorder(bo)


def dts(dt):
    """Explicit dtype string, e.g. '<i4' (byte order always spelled out)."""
    dt = np.dtype(dt)
    s = dt.str
    return s


_ALIASES = ['b', 'B', 'h', 'H', 'i', 'I', 'l', 'L', 'q', 'Q', 'e', 'f', 'd', 'F', 'D', 'byte', 'ubyte', 'short', 'ushort', 'intc', 'uintc', 'int_', 'uint',
            'longlong', 'ulonglong', 'half', 'single', 'double', 'csingle', 'cdouble', 'float', 'int', 'complex', 'intp', 'uintp']


def dtype_spellings(dt):
    """Every way of writing dtype `dt` as a dtype argument that NumPy itself resolves to exactly `dt` (same type, same byte
    order): the dtype object, its explicit string, and - where they denote it - name, type class, one-letter code, '='-prefixed
    string, C-style aliases and the Python types int / float / complex."""
    dt = np.dtype(dt)
    cands = [dt, dt.str, np.dtype(dt.str), dt.str[1:] if dt.itemsize == 1 else dt.str, dt.descr[0][1]]
    extra = [dt.name, dt.type, dt.char, '=' + dt.str[1:], '|' + dt.str[1:], dt.str[1:], int, float, complex] + _ALIASES
    for c in extra:
        try:
            r = np.dtype(c)
        except Exception:
            continue
        if r == dt and r.str == dt.str:
            cands.append(c)
    out, seen = [], set()
    for c in cands:
        k = (type(c).__name__, repr(c))
        if k not in seen:
            seen.add(k)
            out.append(c)
    return out


def spell_dtype(dt, k):
    """The k-th spelling (k any integer) of dtype dt; k == 0 is the dtype object itself."""
    sp = dtype_spellings(dt)
    return sp[k % len(sp)]


def spell_true(k):
    """A true flag written as True / 1 / np.True_ / np.bool_(1) (k any integer; 0 is True itself)."""
    return [True, 1, np.True_, np.bool_(1)][k % 4]


st_type = st.sampled_from(NUMTYPES)
st_bo = st.sampled_from(BYTEORDERS)


@st.composite
def st_dt(draw):
    return {'t': draw(st_type), 'bo': draw(st_bo)}


def dt_of(d):
    return mkdtype(d['t'], d['bo'])


@st.composite
def st_shape(draw, min_first=0, max_first=6, max_rank=4, min_rank=1):
    rank = draw(st.integers(min_rank, max_rank))
    first = draw(st.one_of(st.sampled_from([0, 1, 2]), st.integers(min_first, max_first)))
    first = max(first, min_first)
    rest = [draw(st.integers(1, 4)) for _ in range(rank - 1)]
    return [first] + rest


# ------------------------------------------------------------------ values
# modes: 'raw'  - arbitrary bit patterns (NaN payloads, subnormals, extremes arise) + special pool
#        'fin'  - finite "safe" values + inf/-0.0/canonical NaN (used when a cast is involved)
#        'safe' - small non-negative integers 0..100 (defined under every cast, incl. float->uint)
#        'dist' - pairwise distinct finite values (permutation of a range), for reorder visibility

def _special_pool(dt):
    dt = np.dtype(dt)
    k = dt.kind
    if k in 'iu':
        ii = np.iinfo(dt)
        return [ii.min, ii.max, 0, 1, ii.max - 1, ii.min + 1 if k == 'i' else 2]
    base = np.dtype(dt.str[1:]) if k == 'f' else np.dtype('f' + str(dt.itemsize // 2))
    fi = np.finfo(base)
    pool = [0.0, -0.0, np.inf, -np.inf, np.nan, float(fi.max), float(fi.min), float(fi.tiny),
            float(fi.smallest_subnormal), -float(fi.smallest_subnormal), 1.0, -1.5]
    return pool


def build_values(dt, n, vals):
    """Return a C-contiguous 1-D array of n elements of dtype dt described by vals."""
    dt = np.dtype(dt)
    mode, seed = vals['m'], int(vals['s'])
    rng = np.random.Generator(np.random.PCG64(seed))
    k = dt.kind
    if mode == 'raw':
        raw = np.frombuffer(rng.bytes(n * dt.itemsize), dtype=dt).copy() if n else np.empty(0, dt)
        # sprinkle special values
        pool = _special_pool(dt)
        mask = rng.random(n) < 0.3
        picks = rng.integers(0, len(pool), size=n)
        for i in np.nonzero(mask)[0]:
            v = pool[picks[i]]
            if k == 'c':
                raw[i] = complex(v, pool[(picks[i] * 7 + 3) % len(pool)])
            else:
                raw[i] = v
        return raw
    if mode == 'fin':
        if k in 'iu':
            ii = np.iinfo(dt)
            out = (rng.integers(ii.min, ii.max, size=n, dtype=np.dtype(dt.name), endpoint=True)
                   if n else np.empty(0, dt.name)).astype(dt)
            pool = [ii.min, ii.max, 0, 1]
            mask = rng.random(n) < 0.3
            picks = rng.integers(0, len(pool), size=n)
            for i in np.nonzero(mask)[0]:
                out[i] = pool[picks[i]]
            return out
        pool = [0.0, -0.0, 1.0, -1.5, 2.5, 1e3, -7.25, np.inf, -np.inf, np.nan, 0.1, 65504.0, 3.0e-5]
        picks = rng.integers(0, len(pool), size=(n, 2))
        out = np.empty(n, dt)
        for i in range(n):
            out[i] = complex(pool[picks[i, 0]], pool[picks[i, 1]]) if k == 'c' else pool[picks[i, 0]]
        return out
    if mode == 'safe':
        a = rng.integers(0, 100, size=n, endpoint=True) if n else np.empty(0, 'int64')
        return a.astype(dt)
    if mode == 'dist':
        perm = rng.permutation(n) if n else np.empty(0, 'int64')
        if k == 'u':
            a = perm + 1
            if dt.itemsize > 1:
                a = a * 257 + 1            # make both bytes of a 16-bit word differ
        elif k == 'i':
            a = perm - n // 2
            if dt.itemsize > 1:
                a = a * 259 + 1
        elif k == 'f':
            a = (perm - n // 2) * 0.5 + 0.25
        else:
            a = (perm - n // 2) * 0.5 + 0.25 + 1j * (perm * 0.25 - 1.0)
        if dt.itemsize == 1 and n > 120:
            a = (perm % 120) + 1 if k == 'u' else (perm % 240) - 120     # cannot be all distinct in one byte
        return a.astype(dt)
    raise ValueError(mode)


st_vals_raw = st.builds(lambda s: {'m': 'raw', 's': s}, st.integers(0, 2 ** 32 - 1))
st_vals_fin = st.builds(lambda s: {'m': 'fin', 's': s}, st.integers(0, 2 ** 32 - 1))
st_vals_safe = st.builds(lambda s: {'m': 'safe', 's': s}, st.integers(0, 2 ** 32 - 1))
st_vals_dist = st.builds(lambda s: {'m': 'dist', 's': s}, st.integers(0, 2 ** 32 - 1))


def build_array(dtd, shape, vals):
    dt = dt_of(dtd) if isinstance(dtd, dict) else np.dtype(dtd)
    n = int(np.prod(shape)) if len(shape) else 1
    return build_values(dt, n, vals).reshape(shape)


# ------------------------------------------------------------------ layouts
LAYOUTS = ['C', 'F', 'T', 'strided', 'neg', 'bcast', 'ro']


def apply_layout(base, layout):
    """Return an array with a different memory layout. Its logical content is
    np.ascontiguousarray(result) (equal to base for every layout but 'bcast')."""
    if layout == 'C':
        return base
    if layout == 'F':
        return np.asfortranarray(base)
    if layout == 'T':
        if base.ndim < 2:
            return np.ascontiguousarray(base[::-1])[::-1]
        return np.moveaxis(np.ascontiguousarray(np.moveaxis(base, 0, -1)), -1, 0)
    if layout == 'strided':
        big = np.zeros((2 * base.shape[0] + 1,) + base.shape[1:], dtype=base.dtype)
        big[1::2] = base
        return big[1::2][:base.shape[0]]
    if layout == 'neg':
        return np.ascontiguousarray(base[::-1])[::-1]
    if layout == 'bcast':
        if base.shape[0] == 0:
            return np.broadcast_to(np.zeros(base.shape[1:], base.dtype), base.shape)
        return np.broadcast_to(base[0], base.shape)
    if layout == 'ro':
        x = base.copy()
        x.flags.writeable = False
        return x
    raise ValueError(layout)


# cast safety: which value mode may be used when casting src type -> dst type
def cast_mode(src_t, dst_t):
    """Value mode that keeps np.astype(src->dst) fully defined and chunk-independent."""
    ks, kd = kind(src_t), kind(dst_t)
    if src_t == dst_t:
        return 'raw'
    if ks in 'fc' and kd in 'iu':
        return 'safe'
    if ks in 'iu' and kd in 'iu':
        return 'fin'          # modular, defined
    if ks in 'iu':
        return 'fin'
    return 'fin'              # float/complex -> float/complex: no signalling NaNs / payloads


def tolist_nested(a, as_tuple=False):
    lst = a.tolist()
    if as_tuple:
        def conv(x):
            return tuple(conv(i) for i in x) if isinstance(x, list) else x
        return conv(lst)
    return lst


# ------------------------------------------------------------------ index expressions (JSON-encoded)
def build_index(ix):
    """JSON index spec -> Python index object."""
    t = ix['t']
    if t == 'int':
        return int(ix['v'])
    if t == 'npint':
        return np.int64(ix['v'])
    if t == 'slice':
        return slice(*ix['v'])
    if t == 'ell':
        return Ellipsis
    if t == 'none':
        return None
    if t == 'tuple':
        return tuple(build_index(i) for i in ix['v'])
    if t == 'intarr':
        return np.array(ix['v'], dtype='int64')
    if t == 'intlist':
        return list(ix['v'])
    if t == 'mask':
        return np.array(ix['v'], dtype=bool)
    if t == 'str':
        return ix['v']
    if t == 'float':
        return float(ix['v'])
    if t == 'dict':
        return {}
    raise ValueError(t)


@st.composite
def st_basic_index1(draw, n):
    """One basic index component for an axis of length n (may be out of range)."""
    k = draw(st.sampled_from(['int', 'slice', 'slice', 'ell', 'full']))
    if k == 'int':
        return {'t': 'int', 'v': draw(st.integers(-n - 2, n + 1))}
    if k == 'slice':
        b = st.one_of(st.none(), st.integers(-n - 2, n + 2))
        return {'t': 'slice', 'v': [draw(b), draw(b), draw(st.one_of(st.none(), st.sampled_from([1, 2, -1, -2, 3])))]}
    if k == 'ell':
        return {'t': 'ell'}
    return {'t': 'slice', 'v': [None, None, None]}


@st.composite
def st_basic_index(draw, shape):
    n = draw(st.integers(1, len(shape)))
    comps = [draw(st_basic_index1(shape[i])) for i in range(n)]
    # at most one ellipsis
    seen = False
    for c in comps:
        if c['t'] == 'ell':
            if seen:
                c.update({'t': 'slice', 'v': [None, None, None]})
            seen = True
    if len(comps) == 1 and draw(st.booleans()):
        return comps[0]
    return {'t': 'tuple', 'v': comps}
