"""C20 - DataDir never modifies protected files and round-trips user files.

Complete matrix public method x protected target (files, for ragged arrays also
the values/ indices/ directories and everything below them, existing or not) x
spelling (str, Path, './', './/', '..' detours, redundant separators, absolute,
trailing slash) x overwrite flag / file mode: every cell must raise OSError and
leave the directory snapshot byte-identical.  Generated user-file round-trips
for write_jsondict/read_jsondict, write_txt/read_txt, overwrite refusal and
delete_files (also lists mixing user and protected names).
"""
import os, json, itertools, pathlib
import numpy as np
from hypothesis import strategies as st
from vlib.runner import Outcome, hyp_search, enum_search, shard_seed, NSHARDS
from vlib.snap import snapshot, diff
from checks import c13

PROPERTY = 'C20'
LEVEL = 'exploration'
RULE = ("protected matrix: {Array, RaggedArray} x method {write_txt, write_jsonfile, write_jsondict, update_jsondict, delete_files, "
        "open_file in modes w,a,x,r+,rb+,r+b,wb,ab,w+,a+,xb} x protected target (each own file incl. an absent metadata.json; ragged: "
        "values, indices, every file below them and a new name below them) x 10 spellings x overwrite flag - enumerated completely; "
        "delete_files with lists mixing user and protected names; user files: generated names, JSON dicts (C13 value strategy) and "
        "unicode text incl. CR/LF; oracle = OSError + byte-identical snapshot for protected cells, JSON / universal-newline round "
        "trip for user files; non-trivial = spelling differs from the stored protected string, or a user-file case; distinct = "
        "canonical spec")
ASSUMPTIONS = ["names are resolved relative to the array directory; symlink aliases created by the user are not part of the claim",
               "read_txt uses the platform text decoding (UTF-8 here) with universal newlines"]
EXHAUSTIVE = "method x protected target x spelling x flag matrix for Array and RaggedArray"
METHODS = ['write_txt', 'write_jsonfile', 'write_jsondict', 'update_jsondict', 'delete_files'] + \
          ['open_file:' + m for m in ['w', 'a', 'x', 'r+', 'rb+', 'r+b', 'wb', 'ab', 'w+', 'a+', 'xb']]
def all_write_modes():
    """Every mode string Python's open() accepts that allows writing: one of w / a / x (or r together with '+'), optionally '+',
    optionally one of b / t - the characters in any order ('wb', 'bw', '+bw', 'tw', ...)."""
    seen = []
    for base in 'wax':
        for plus in ('', '+'):
            for bt in ('', 'b', 't'):
                for perm in itertools.permutations(base + plus + bt):
                    seen.append(''.join(perm))
    for bt in ('', 'b', 't'):
        for perm in itertools.permutations('r+' + bt):
            seen.append(''.join(perm))
    return sorted(set(seen))


SPELLINGS = ['str', 'Path', './', './/', 'detour', 'detour-values', 'dupsep', 'abs', 'absPath', 'slash', 'dot-mid', 'updown', 'updown2', 'via-other-name', 'ulink', 'fspath-obj', 'str-subclass']
MUST_HIT = ['spell:fspath-obj', 'spell:str-subclass', 'handle-opened-through-symlinked-directory', 'spell:ulink', 'spell:via-other-name', 'm:delete_files:bare', 'env:c-locale', 'handle-opened-by-relative-path', 'spell:updown', 'path-recreated-as-other-kind', 'kind:Array', 'kind:Ragged', 'spell:Path', 'spell:./', 'spell:detour', 'target:subdir-file', 'target:dirname', 'target:absent',
            'target:new-in-subdir', 'user:json', 'user:txt', 'user:overwrite-refused', 'user:delete', 'mixed-delete', 'read-protected-ok'] + \
           ['m:' + m for m in METHODS]


def targets(kind):
    t = [('arrayvalues.bin', 'file'), ('arraydescription.json', 'file'), ('README.txt', 'file'), ('metadata.json', 'absent')] if kind == 'Array' else \
        [('arraydescription.json', 'file'), ('README.txt', 'file'), ('metadata.json', 'file'), ('values', 'dir'), ('indices', 'dir'),
         ('values/arrayvalues.bin', 'subfile'), ('values/arraydescription.json', 'subfile'), ('indices/README.txt', 'subfile'),
         ('indices/arrayvalues.bin', 'subfile'), ('values/metadata.json', 'subabsent'), ('indices/notes.txt', 'subnew')]
    return t


def spell(name, how, base):
    if how == 'str':
        return name
    if how == 'Path':
        return pathlib.Path(name)
    if how == './':
        return './' + name
    if how == './/':
        return './/' + name
    if how == 'detour':
        return 'nonexistent/../' + name
    if how == 'detour-values':
        return 'values/../' + name if os.path.isdir(os.path.join(base, 'values')) else 'x/y/../../' + name
    if how == 'dupsep':
        return name.replace('/', '//') if '/' in name else './/.//' + name
    if how == 'abs':
        return os.path.join(base, name)
    if how == 'absPath':
        return pathlib.Path(base) / name
    if how == 'slash':
        return name + '/'
    if how == 'dot-mid':
        return name.replace('/', '/./') if '/' in name else './././' + name
    if how == 'via-other-name':
        # the array directory has two names (x.darr and the symlink 'current' next to it): go up and come back through the OTHER one
        other = 'x.darr' if os.path.basename(str(base)) == 'current' else 'current'
        return '../' + other + '/' + name
    if how == 'fspath-obj':
        return _FsName(name)        # an os.PathLike that is neither str nor Path; its str() is not its path
    if how == 'str-subclass':
        return _OddStr(name)        # a str subclass whose __str__ says something else
    if how == 'ulink':
        return 'ulink'           # a symbolic link made by the user inside the array directory that points at the protected entry
    if how in ('updown', 'updown2'):
        # up out of the array directory (and of the directory that holds it) and back down again by name; stays inside the scratch tree
        parts = os.path.abspath(base).split(os.sep)
        k = 2 if how == 'updown' else 3
        return '/'.join(['..'] * k + parts[-k:] + [name])
    raise ValueError(how)


class _FsName:
    def __init__(self, p_):
        self._p = p_

    def __fspath__(self):
        return self._p

    def __repr__(self):
        return f'_FsName({self._p!r})'


class _OddStr(str):
    def __str__(self):
        return 'something-else.txt'


def call_method(dd, method, name, flag):
    """Invoke one public mutator with a valid payload."""
    if method == 'write_txt':
        return dd.write_txt(name, 'overwritten by user\n', overwrite=flag)
    if method == 'write_jsonfile':
        return dd.write_jsonfile(name, [1, 2, 3], overwrite=flag)
    if method == 'write_jsondict':
        return dd.write_jsondict(name, {'a': 1}, overwrite=flag)
    if method == 'update_jsondict':
        return dd.update_jsondict(name, {'a': 1})
    if method == 'delete_files':
        return dd.delete_files([name])
    if method == 'delete_files:bare':
        return dd.delete_files(name)        # the name itself instead of a sequence of names
    mode = method.split(':', 1)[1]
    with dd.open_file(name, mode) as f:
        if 'b' in mode:
            f.write(b'XX')
        else:
            f.write('XX')


def make(kind, d):
    import darr
    d = os.path.join(d, 'outer', 'work')        # some depth, so that '..' detours stay inside the scratch directory
    os.makedirs(d, exist_ok=True)
    p = os.path.join(d, 'x.darr')
    if kind == 'Array':
        a = darr.asarray(p, np.arange(8, dtype='int32'), accessmode='r+')
    else:
        a = darr.asraggedarray(p, [[1, 2], [3, 4, 5], []], dtype='float32', metadata={'m': 1}, accessmode='r+')
    if not os.path.lexists(os.path.join(d, 'current')):
        os.symlink('x.darr', os.path.join(d, 'current'))       # a second name for the same directory
    return a, p


def execute(ctx, spec):
    if spec.get('env'):          # a case recorded from a child interpreter under another environment (replay path)
        from vlib import envrun
        return envrun.execute_in_env(ctx, 'checks.c20', spec)
    out = Outcome()
    if spec['f'] == 'prot':
        return _exec_prot(ctx, spec, out)
    if spec['f'] == 'mixdel':
        return _exec_mixdel(ctx, spec, out)
    if spec['f'] == 'fuzzpath':
        return _exec_fuzzpath(ctx, spec, out)
    if spec['f'] == 'recreate':
        return _exec_recreate(ctx, spec, out)
    return _exec_user(ctx, spec, out)


def _exec_prot(ctx, spec, out):
    oldcwd = os.getcwd()
    try:
        return _exec_prot_inner(ctx, spec, out)
    finally:
        os.chdir(oldcwd)      # (relative-path handles are used with the working directory their path starts from)


def _exec_prot_inner(ctx, spec, out):
    kind, method, (tname, tkind), how, flag = spec['kind'], spec['m'], spec['t'], spec['s'], spec['flag']
    out.cls('kind:' + kind, 'm:' + method, 'spell:' + how)
    out.cls({'file': 'target:file', 'absent': 'target:absent', 'dir': 'target:dirname', 'subfile': 'target:subdir-file',
             'subabsent': 'target:absent', 'subnew': 'target:new-in-subdir'}[tkind])
    with ctx.scratch() as d:
        a, p = make(kind, d)
        if how == 'slash' and tkind not in ('dir',):
            out.nontrivial = False
            return out           # 'file/' is not a spelling of a file
        name = spell(tname, how, p)
        out.nontrivial = how != 'str'
        if how == 'ulink':
            os.symlink(os.path.join(p, tname), os.path.join(p, 'ulink'))
        if spec.get('openvia') == 'symlink':
            # the handle is made through the symbolic link that is the directory's second name
            import darr
            out.cls('handle-opened-through-symlinked-directory')
            sl = os.path.join(os.path.dirname(p), 'current')
            a = darr.Array(sl, accessmode='r+') if kind == 'Array' else darr.RaggedArray(sl, accessmode='r+')
            if how == 'via-other-name':
                name = spell(tname, how, sl)
        if spec.get('openvia') == 'rel':
            # the handle is made from a RELATIVE path, with the working directory where that path starts
            import darr
            out.cls('handle-opened-by-relative-path')
            os.chdir(os.path.dirname(p))
            rel = os.path.basename(p) if spec.get('flag') else pathlib.Path(os.path.basename(p))
            a = darr.Array(rel, accessmode='r+') if kind == 'Array' else darr.RaggedArray(rel, accessmode='r+')
        before = snapshot(p)
        tag = f'{kind}:{method}:{tkind}:{how}'
        try:
            call_method(a.datadir, method, name, flag)
            exc = None
        except Exception as e:
            exc = e
        after = snapshot(p)
        if after != before:
            out.viol('protected-file-modified', tag, f'{method}({name!r}) changed: ' + '; '.join(diff(before, after)))
            return out
        if method == 'delete_files:bare':
            return out       # (what a bare name means to delete_files is not stated; it must not destroy anything, which was checked above)
        if not isinstance(exc, OSError):
            out.viol('protected-not-refused', tag, f'{method}({name!r}) -> {type(exc).__name__ if exc else "no exception"}: {exc}')
            return out
        # plain reading stays possible
        if tkind in ('file', 'subfile') and how in ('str', 'Path', './'):
            out.cls('read-protected-ok')
            try:
                with a.datadir.open_file(name, 'rb' if tname.endswith('.bin') else 'r') as f:
                    f.read()
            except Exception as e:
                if tname.endswith('.bin'):
                    pass    # only plain 'r' is promised
                else:
                    out.viol('protected-read-refused', f'{kind}:{how}', f"open_file({name!r}, 'r') raised {type(e).__name__}: {e}")
        # the array still opens and reads
        try:
            _ = a[0]
        except Exception as e:
            out.viol('array-broken-after-refused-call', tag, f'{type(e).__name__}: {e}')
    return out


def _exec_mixdel(ctx, spec, out):
    kind = spec['kind']
    out.cls('kind:' + kind, 'mixed-delete')
    with ctx.scratch() as d:
        a, p = make(kind, d)
        a.datadir.write_txt('notes.txt', 'keep me')
        a.datadir.write_jsondict('extra.json', {'k': 1})
        prot = spell(spec['t'], spec['s'], p)
        names = {'first': [prot, 'notes.txt'], 'last': ['notes.txt', prot], 'middle': ['notes.txt', prot, 'extra.json']}[spec['pos']]
        before = snapshot(p)
        try:
            a.datadir.delete_files(names)
            exc = None
        except Exception as e:
            exc = e
        after = snapshot(p)
        tag = f"{kind}:delete_files:mixed:{spec['pos']}"
        if not isinstance(exc, OSError):
            out.viol('protected-not-refused', tag, f'delete_files({names!r}) -> {type(exc).__name__ if exc else "no exception"}')
        elif after != before:
            out.viol('refused-call-changed-directory', tag, '; '.join(diff(before, after)))
    return out


SAFE = 'abcdefghijklmnopqrstuvwxyzABCDEFGHIJKLMNOPQRSTUVWXYZ0123456789_-'


@st.composite
def st_user(draw):
    name = draw(st.one_of(st.text(alphabet=SAFE, min_size=1, max_size=8).map(lambda s: s),
                          st.sampled_from(['README.txt.bak', 'arrayvalues.bin.sha256', 'metadata.json.orig', 'arraydescription.json~', 'values.csv',
                                           'values2', 'indices_old.txt', 'READM', 'value', 'metadata.jso']))) + \
        draw(st.sampled_from(['.txt', '.json', '', '.dat', '']))
    fam = draw(st.sampled_from(['json', 'txt']))
    spec = {'f': 'user', 'kind': draw(st.sampled_from(['Array', 'Ragged'])), 'name': name, 'fam': fam, 'asPath': draw(st.booleans()),
            'others': draw(st.lists(st.text(alphabet=SAFE, min_size=1, max_size=5).map(lambda s: s + '.u'), max_size=3, unique=True)),
            'alt': draw(st.sampled_from([0, 0, 1, 2, 3]))}
    if fam == 'json':
        spec['d'] = [[k, draw(c13.st_value())] for k in draw(st.lists(st.sampled_from(['a', 'b', 'ö', 'k 4']), max_size=3, unique=True))]
        spec['d2'] = [[k, draw(c13.st_value())] for k in draw(st.lists(st.sampled_from(['a', 'z']), max_size=2, unique=True))]
    else:
        spec['txt'] = draw(st.sampled_from(['', '', '', '\ufeff', '\ufeff\ufeff', '\ufffe', '\x00', '\u2028', '\x1a'])) + ''.join(draw(st.lists(st.one_of(st.characters(exclude_categories=['Cs']), st.sampled_from(['\r\n', '\n', '\r', 'é', '日', 'abc'])), max_size=20)))
        spec['txt2'] = draw(st.text(max_size=5, alphabet=SAFE))
    return spec


def _exec_user(ctx, spec, out):
    kind, name = spec['kind'], spec['name']
    reserved = {'arrayvalues.bin', 'arraydescription.json', 'README.txt', 'metadata.json', 'values', 'indices'}
    if name in reserved:
        name = 'u_' + name
    others = [o for o in spec['others'] if o != name and o not in reserved]
    out.cls('kind:' + kind)
    with ctx.scratch() as d:
        a, p = make(kind, d)
        dd = a.datadir
        nm = pathlib.Path(name) if spec['asPath'] else name
        # the same user file written under one spelling of its name and read under another ('n', './n', './/n', Path): every
        # call sees the one file
        alt = spec.get('alt', 0)
        nmw = {0: nm, 1: './' + name, 2: './/' + name, 3: pathlib.Path('./' + name) if not spec['asPath'] else name}[alt % 4]
        if alt % 4:
            out.cls('user:written-and-read-under-different-spellings')
        protected_before = {k: v for k, v in snapshot(p).items()}
        try:
            for o in others:
                dd.write_txt(o, 'other ' + o)
            if spec['fam'] == 'json':
                out.cls('user:json')
                dobj = {k: c13.build_value(v) for k, v in spec['d']}
                want = {k: c13.model_value(v) for k, v in spec['d']}
                dd.write_jsondict(nmw, dobj)
                got = dd.read_jsondict(nm)
                if not c13.deep_eq(got, want):
                    out.viol('json-roundtrip', 'write_jsondict/read_jsondict', f'{got!r:.200} vs {want!r:.200}')
                    return out
                # what was handed out belongs to the caller: changing it in place changes neither the next read nor the file
                got['changed by the caller'] = 1
                for v_ in got.values():
                    if isinstance(v_, list):
                        v_.append('changed by the caller')
                    elif isinstance(v_, dict):
                        v_['changed by the caller'] = 1
                if not c13.deep_eq(dd.read_jsondict(nm), want):
                    out.viol('json-roundtrip', 'read_jsondict:aliased', 'a dict returned by read_jsondict, changed by the caller, shows up in the next read')
                    return out
                d2 = {k: c13.build_value(v) for k, v in spec['d2']}
                try:
                    dd.write_jsondict(nmw, d2)
                    out.viol('overwrite-not-refused', 'write_jsondict', 'second write with overwrite=False did not raise')
                    return out
                except OSError:
                    out.cls('user:overwrite-refused')
                if not c13.deep_eq(dd.read_jsondict(nm), want):
                    out.viol('refused-overwrite-changed-content', 'write_jsondict', '')
                    return out
                dd.write_jsondict(nmw, d2, overwrite=True)
                if not c13.deep_eq(dd.read_jsondict(nm), {k: c13.model_value(v) for k, v in spec['d2']}):
                    out.viol('json-roundtrip', 'write_jsondict:overwrite=True', '')
                    return out
                upd = dd.update_jsondict(nmw, {'u': 1})
                w3 = dict({k: c13.model_value(v) for k, v in spec['d2']}, u=1)
                if not c13.deep_eq(dd.read_jsondict(nm), w3):
                    out.viol('json-roundtrip', 'update_jsondict', '')
                    return out
            else:
                out.cls('user:txt')
                s = spec['txt']
                want = s.replace('\r\n', '\n').replace('\r', '\n')
                dd.write_txt(nmw, s)
                got = dd.read_txt(nm)
                if got != want:
                    out.viol('txt-roundtrip', 'write_txt/read_txt', f'{got!r:.100} vs {want!r:.100}')
                    return out
                try:
                    dd.write_txt(nmw, spec['txt2'])
                    out.viol('overwrite-not-refused', 'write_txt', 'second write with overwrite=False did not raise')
                    return out
                except OSError:
                    out.cls('user:overwrite-refused')
                if dd.read_txt(nm) != want:
                    out.viol('refused-overwrite-changed-content', 'write_txt', '')
                    return out
                dd.write_txt(nmw, spec['txt2'], overwrite=True)
                if dd.read_txt(nm) != spec['txt2']:
                    out.viol('txt-roundtrip', 'write_txt:overwrite=True', '')
                    return out
            # delete exactly the named files
            out.cls('user:delete')
            victims = [nmw] + others[:1] + ['does-not-exist.txt']
            before = snapshot(p)
            dd.delete_files(victims)
            after = snapshot(p)
            gone = {name} | {str(v) for v in victims[1:]}
            try:
                (dd.read_jsondict if spec['fam'] == 'json' else dd.read_txt)(nm)
            except Exception:
                pass
            else:
                out.viol('deleted-file-still-readable', 'delete_files', f'{name!r} was deleted, yet it can still be read through the same DataDir')
                return out
            expect = {k: v for k, v in before.items() if k not in gone}
            if after != expect:
                out.viol('delete-files-inexact', 'delete_files', '; '.join(diff(expect, after)))
                return out
            leftover = {k: v for k, v in after.items() if k in protected_before}
            if leftover != protected_before:
                out.viol('protected-file-modified', 'user-file-operations', '; '.join(diff(protected_before, leftover)))
        except Exception as e:
            out.viol('user-file-call-raised', f"{spec['fam']}:{type(e).__name__}", f'{type(e).__name__}: {e}')
    return out


def _exec_recreate(ctx, spec, out):
    """The same path holds first one kind of array, then the other: what is protected must follow the current occupant."""
    import darr
    out.cls('path-recreated-as-other-kind')
    with ctx.scratch() as d:
        p = os.path.join(d, 'x.darr')
        if spec['first'] == 'Ragged':
            r = darr.asraggedarray(p, [[1, 2], [3]], dtype='int16', accessmode='r+')
            # in a ragged array's top directory these are ordinary user files
            for nm in ('arrayvalues.bin', './arrayvalues.bin'):
                r.datadir.write_txt(nm, 'user file', overwrite=True)
                r.datadir.delete_files([nm])
            if spec['how'] == 'delete':
                darr.delete_raggedarray(r)
                a = darr.asarray(p, np.arange(6, dtype='int32'), accessmode='r+')
            else:
                a = darr.asarray(p, np.arange(6, dtype='int32'), accessmode='r+', overwrite=True)
            names = ['arrayvalues.bin', './arrayvalues.bin']
        else:
            a0 = darr.asarray(p, np.arange(6, dtype='int32'), accessmode='r+')
            os.mkdir(os.path.join(p, 'values'))
            for nm in ('values/new.txt', 'values/arrayvalues.bin'):
                a0.datadir.write_txt(nm, 'user file', overwrite=True)
                a0.datadir.delete_files([nm])
            os.rmdir(os.path.join(p, 'values'))
            if spec['how'] == 'delete':
                darr.delete_array(a0)
                a = darr.asraggedarray(p, [[1, 2], [3]], dtype='int16', accessmode='r+')
            else:
                a = darr.asraggedarray(p, [[1, 2], [3]], dtype='int16', accessmode='r+', overwrite=True)
            names = ['values/new.txt', 'values/arrayvalues.bin']
        before = snapshot(p)
        for nm in names:
            for method in ('write_txt', 'delete_files', 'open_file:a', 'write_jsondict'):
                try:
                    call_method(a.datadir, method, nm, True)
                    exc = None
                except Exception as e:
                    exc = e
                after = snapshot(p)
                tag = f"recreated:{spec['first']}-first:{spec['how']}:{method}"
                if after != before:
                    out.viol('protected-file-modified', tag, f'{method}({nm!r}): ' + '; '.join(diff(before, after)))
                    return out
                if not isinstance(exc, OSError):
                    out.viol('protected-not-refused', tag, f'{method}({nm!r}) -> {type(exc).__name__ if exc else "no exception"}')
                    return out
    return out


def _exec_fuzzpath(ctx, spec, out):
    """Plain replay of an input found by the atheris campaign: one public call with an arbitrary name string."""
    import darr
    which, name = spec['which'], spec['name']
    with ctx.scratch() as d:
        parent = os.path.join(d, 'parent')
        os.makedirs(os.path.join(parent, 'pa'))
        os.makedirs(os.path.join(parent, 'pr'))
        a = darr.asarray(os.path.join(parent, 'pa', 'a.darr'), np.arange(8, dtype='int32'), accessmode='r+', metadata={'m': 1})
        r = darr.asraggedarray(os.path.join(parent, 'pr', 'r.darr'), [[1, 2], [3], []], dtype='float32', accessmode='r+')
        obj = a if which & 1 else r
        parent = str(obj.path)          # only the files that constitute THIS array are protected by its DataDir
        before = snapshot(parent)
        dd = obj.datadir
        m = (which >> 1) % 8
        # same confinement as the campaign (vlib/fuzzers.py): never follow a name out of the scratch directory
        if not os.path.realpath(os.path.join(parent, name)).startswith(os.path.realpath(d) + os.sep):
            out.nontrivial = False
            out.cls('fuzzpath:name-leaves-scratch-skipped')
            return out
        try:
            if m == 0:
                dd.write_txt(name, 'x', overwrite=bool(which & 128))
            elif m == 1:
                dd.write_jsondict(name, {'a': 1}, overwrite=bool(which & 128))
            elif m == 2:
                dd.write_jsonfile(name, [1], overwrite=bool(which & 128))
            elif m == 3:
                dd.update_jsondict(name, {'a': 1})
            elif m == 4:
                dd.delete_files([name])
            else:
                mode_ = ['w', 'a', 'r+', 'wb', 'x', 'ab', 'rb+', 'w+'][(which >> 4) % 8]
                with dd.open_file(name, mode_) as f:
                    f.write(b'Z' if 'b' in mode_ else 'Z')
        except Exception:
            pass
        after = snapshot(parent)
        changed = [k for k in before if after.get(k) != before[k]]
        created_inside = [k for k in after if k not in before and not (which & 1) and (k.startswith('values/') or k.startswith('indices/'))]
        if changed or created_inside:
            out.viol('protected-file-modified', 'fuzz:path', f'method #{m} with name {name!r} changed {changed[:3] or created_inside[:3]}')
    return out


def task_atheris(ctx, col, runs, mode):
    from vlib.fuzzdrive import run_atheris
    from vlib.runner import judge
    names = ['README.txt', 'arrayvalues.bin', 'arraydescription.json', 'metadata.json', 'values/arrayvalues.bin', 'indices/README.txt', 'values', 'notes.txt']
    seeds = [bytes([w]) + n.encode() for w, n in zip((1, 9, 0, 3, 8, 10, 8, 1), names)]
    tokens = names + ['./', '../', '//', '/', '.', '..', 'values/', 'indices/', 'a.darr/', 'r.darr/', '\\', 'README', '.txt', '.bin', '.json']
    r = run_atheris(ctx, mode, runs, seeds, tokens, max_len=64)
    col.counters['atheris_executions'] += r['executed']
    col.evaluations += r['executed']
    for k, v in (r.get('stats') or {}).items():
        col.counters['atheris_' + k] += v
    if not r['available']:
        col.notes.append(r['note'])
        col.counters['atheris_unavailable'] += 1
        return
    if r['note']:
        col.notes.append(r['note'])
    if r['finding']:
        spec = {'f': 'fuzzpath', 'which': r['finding']['which'], 'name': r['finding']['name']}
        o = execute(ctx, spec)
        found = judge(ctx, col, spec, o)
        for v in found:
            col.violation(spec, v)
        if not found:
            col.counters['atheris_finding_not_reproduced_by_plain_replay'] += 1


def matrix():
    for kind in ('Array', 'Ragged'):
        for method, t, how in itertools.product(METHODS, targets(kind), SPELLINGS):
            flags = (False, True) if method.startswith('write') else (False,)
            for flag in flags:
                yield {'f': 'prot', 'kind': kind, 'm': method, 't': list(t), 's': how, 'flag': flag}
                if how in ('str', './', 'detour', 'updown', 'updown2', 'abs', 'dot-mid'):
                    yield {'f': 'prot', 'kind': kind, 'm': method, 't': list(t), 's': how, 'flag': flag, 'openvia': 'rel'}
                if how in ('str', 'Path', 'detour', 'via-other-name', 'updown', 'abs'):
                    yield {'f': 'prot', 'kind': kind, 'm': method, 't': list(t), 's': how, 'flag': flag, 'openvia': 'symlink'}
        for t, how in itertools.product(targets(kind), ('str', 'Path', './', 'abs', 'updown')):
            yield {'f': 'prot', 'kind': kind, 'm': 'delete_files:bare', 't': list(t), 's': how, 'flag': False}
        for mode, t, how in itertools.product(all_write_modes(), targets(kind), ('str', 'detour')):       # every spelling of a writing mode
            yield {'f': 'prot', 'kind': kind, 'm': 'open_file:' + mode, 't': list(t), 's': how, 'flag': False}
        for t, _ in targets(kind)[:3]:
            for how in ('str', 'Path', './', 'detour'):
                for pos in ('first', 'last', 'middle'):
                    yield {'f': 'mixdel', 'kind': kind, 't': t, 's': how, 'pos': pos}
        if kind == 'Ragged':
            for pos in ('first', 'last', 'middle'):
                yield {'f': 'mixdel', 'kind': kind, 't': 'values/arrayvalues.bin', 's': 'str', 'pos': pos}
    for first in ('Ragged', 'Array'):
        for how in ('delete', 'overwrite'):
            yield {'f': 'recreate', 'first': first, 'how': how}


def task_matrix(ctx, col, shard):
    enum_search(ctx, col, (s for i, s in enumerate(matrix()) if i % NSHARDS == shard), lambda s: execute(ctx, s))


def task_user(ctx, col, shard, n):
    hyp_search(ctx, col, st_user(), lambda s: execute(ctx, s), shard_seed(ctx, shard), n)


LOCALE_SPECS = [
    {'f': 'user', 'kind': k, 'name': nm, 'fam': 'txt', 'asPath': ap, 'others': ['o.u'], 'txt': txt, 'txt2': 'zweite Fassung: äöü €\n'}
    for k in ('Array', 'Ragged') for nm, ap in (('notes.txt', False), ('lab-notes', True))      # (file NAMES stay ASCII: the C locale cannot encode others)
    for txt in ('\ufeffstarts with U+FEFF', 'plain ascii\n', 'grüß dich\n', '日本語 text\r\nline 2', '€ \u2010 \U0001F600', 'caf\u00e9')
] + [
    {'f': 'user', 'kind': k, 'name': 'extra.json', 'fam': 'json', 'asPath': False, 'others': [],
     'd': [['a', {'t': 'str', 'v': 'é日本'}], ['ö', {'t': 'list', 'v': [{'t': 'str', 'v': '€'}, {'t': 'int', 'v': 1}]}]], 'd2': [['z', {'t': 'str', 'v': 'ü'}]]}
    for k in ('Array', 'Ragged')
]


def task_locale(ctx, col, n):
    """User-file round trips in a child interpreter whose default text encoding is ASCII (LC_ALL=C, UTF-8 mode off): what
    write_txt / write_jsondict store must come back through read_txt / read_jsondict there too."""
    from vlib import envrun
    from vlib.runner import hyp_collect
    specs = LOCALE_SPECS + hyp_collect(st_user(), shard_seed(ctx, 77), n)
    envrun.run_specs(ctx, col, 'checks.c20', specs, 'c-locale')


def tasks(ctx):
    t = [(task_locale, dict(n=ctx.pick(150, 2000)))]
    for sh in range(NSHARDS):
        t.append((task_matrix, dict(shard=sh)))
        t.append((task_user, dict(shard=sh, n=ctx.pick(400, 2500))))
    if ctx.thorough:
        t.append((task_atheris, dict(runs=250000, mode='c20a')))
        t.append((task_atheris, dict(runs=250000, mode='c20r')))
    return t
