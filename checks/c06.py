"""C06 - generated read code for Arrays denotes the stored array in every language.

The program text depends only on (numtype, byte order, shape, language, path
mode); that finite structure space is enumerated completely, with pairwise
distinct element values so that any permutation of bytes or axes is visible.
Python-family code is executed; the seven foreign dialects are run in reference
interpreters (vlib/lang) that implement the documented semantics of each
language's binary-read and reshape built-ins.  Also checked: the offer table of
docs/readcode.rst, the path written into the code, read-only file modes, and
that running the code changes no file (also for empty arrays).
"""
import os, re, sys, itertools, shutil, array as pyarray
import numpy as np
from hypothesis import strategies as st
from vlib.runner import Outcome, hyp_search, enum_search, shard_seed, NSHARDS, DARR_SRC, HarnessError
from vlib import gens
from vlib.gens import NUMTYPES
from vlib.snap import snapshot, diff
from vlib.lang import dialects
from vlib.lang.core import IllFormed, NotUnderstood, Indeterminate, Modifies, flatF

PROPERTY = 'C06'
LEVEL = 'exploration'
RULE = ("program = readcode(language, abspath, basepath) of an Array with (numtype x byte order x shape); all 13 x 2 x 9 shapes "
        "(rank 1-4, pairwise distinct extents, length-1 axes) x 12 languages x 3 path modes enumerated; element values are a "
        "seeded permutation of distinct values; Python family executed (exec), Matlab/Scilab/R/Julia 0.x/Julia 1/IDL/Mathematica/"
        "Maple interpreted; oracle = round trip to the stored values with axes as stored (row-major) or reversed (column-major), "
        "path string, read-only open modes, unchanged directory snapshot, offer table of docs/readcode.rst; every program except "
        "language 'darr' is non-trivial; distinct = (numtype, byte order, shape, language, path mode, value seed)")
ASSUMPTIONS = ["the seven non-Python dialects are interpreted by reference interpreters written from the languages' documentation "
               "(fread/mget/readBin/read!/read_binary/BinaryReadList/FileTools[Binary][Read], reshape rules, index origin) - not run in "
               "the real tools, none of which exists offline",
               "Julia's ltoh/ntoh are taken to be defined for Complex and Float16; Matlab's half.typecast is taken as a bit reinterpretation",
               "shapes are compared modulo singleton axes for Matlab, Scilab, IDL and R (they drop them), exactly for Julia, Maple, Mathematica, NumPy",
               "R code is not exercised with the value INT32_MIN (documented NA)"]
EXHAUSTIVE = "13 numeric types x 2 byte orders x 9 shapes x 12 languages x 3 path modes (+ empty arrays for the side-effect clause)"
LANGS = ['darr', 'idl', 'julia_ver0', 'julia_ver1', 'mathematica', 'matlab', 'maple', 'numpy', 'numpymemmap', 'python', 'R', 'scilab']
FOREIGN = ['idl', 'julia_ver0', 'julia_ver1', 'mathematica', 'matlab', 'maple', 'R', 'scilab']
SHAPES = [(5,), (1,), (2, 3), (3, 1), (1, 4), (2, 3, 4), (4, 1, 2), (2, 3, 4, 5), (1, 2, 1, 3)]
PATHMODES = ['rel', 'base', 'abs']
MUST_HIT = ['basepath:os.PathLike-object', 'churn:change-and-ask-inside-context', 'call:positional-arguments', 'after-history-on-live-handle', 'churn:ask-trunc-ask', 'churn:ask-append-ask', 'path:base-via-symlink-dotdot', 'path:via-symlink-dotdot', 'path:handle-opened-by-relative-path'] + ['lang:' + l for l in LANGS] + ['path:' + p for p in PATHMODES] + ['offer-table', 'withheld', 'empty-array', 'rank:1', 'rank:2',
                                                                              'rank:3', 'rank:4', 'complex', 'float16', 'bigendian']
COLUMN = {'IDL': ['idl'], 'Julia': ['julia_ver0', 'julia_ver1'], 'Maple': ['maple'], 'Mathematica': ['mathematica'], 'Matlab': ['matlab'],
          'Numpy': ['numpy', 'numpymemmap'], 'Python': ['python'], 'R': ['R'], 'Scilab': ['scilab']}


# ------------------------------------------------------------------ offer table from the documentation
_TABLE = {}


def doc_tables():
    """Parse the two compatibility tables of docs/readcode.rst -> (types: {numtype: {lang: bool}}, ndim: {'1-D'|'N-D': {lang: bool}})."""
    if _TABLE:
        return _TABLE['t'], _TABLE['n']
    path = os.path.join(DARR_SRC, 'docs', 'readcode.rst')
    with open(path, encoding='utf-8') as f:
        lines = f.read().splitlines()
    types, ndim = {}, {}
    header = None
    for ln in lines:
        if not ln.startswith('|'):
            continue
        cells = [c.strip() for c in ln.strip().strip('|').split('|')]
        if cells[0] == '' and 'IDL' in cells:
            header = cells[1:]
            continue
        if header is None:
            continue
        row = {}
        for col, cell in zip(header, cells[1:]):
            for lang in COLUMN[col]:
                row[lang] = cell != ''
        if cells[0] in NUMTYPES:
            types[cells[0]] = row
        elif cells[0].startswith('1-D'):
            ndim['1-D'] = row
        elif cells[0].startswith('N-D'):
            ndim['N-D'] = row
    if len(types) != 13 or len(ndim) != 2:
        raise HarnessError(f'could not parse the compatibility tables of {path}: {len(types)} type rows, {len(ndim)} dimension rows')
    _TABLE['t'], _TABLE['n'] = types, ndim
    return types, ndim


def offered_by_docs(numtype, rank, lang):
    if lang == 'darr':
        return True
    types, ndim = doc_tables()
    return types[numtype][lang] and ndim['1-D' if rank == 1 else 'N-D'][lang]


# ------------------------------------------------------------------ comparing results
def squeeze(t):
    return tuple(int(x) for x in t if x != 1)


def exact_equal(flat, ref):
    """Numerical identity element by element (no tolerance), across dtypes."""
    flat, ref = np.asarray(flat).ravel(), np.asarray(ref).ravel()
    if flat.shape != ref.shape:
        return False
    if ref.dtype.kind in 'iu':
        if flat.dtype.kind not in 'iuf':
            return False
        return [int(x) for x in ref.tolist()] == [int(x) if float(x).is_integer() else x for x in flat.tolist()]
    if ref.dtype.kind == 'c':
        return np.array_equal(flat.astype('c16'), ref.astype('c16'))
    if flat.dtype.kind == 'c':
        return False
    return np.array_equal(flat.astype('f8'), ref.astype('f8'))


def check_foreign_result(out, it, v, ref, tag, what='result'):
    """v: value produced by interpreter `it`; ref: stored ndarray (row-major)."""
    if not isinstance(v, np.ndarray):
        if ref.size == 1 and isinstance(v, (int, float, complex, np.generic)):
            v = np.array([v])
        else:
            out.viol('result-not-an-array', tag, f'{what} is {type(v).__name__}: {v!r:.80}')
            return False
    refn = ref.astype(ref.dtype.newbyteorder('='))
    if it.colmajor:
        want_dims, flat, rflat = ref.shape[::-1], flatF(v), refn.ravel()
    else:
        want_dims, flat, rflat = ref.shape, v.ravel(), refn.ravel()
    gd = squeeze(v.shape) if it.squeeze_compare else tuple(v.shape)
    wd = squeeze(want_dims) if it.squeeze_compare else tuple(want_dims)
    if gd != wd:
        out.viol('wrong-dimensions', tag, f'{what} has dims {tuple(v.shape)}, stored shape {ref.shape} requires {tuple(want_dims)}')
        return False
    if not exact_equal(flat, rflat):
        out.viol('wrong-values', tag, f'{what} = {flat[:5]}..., stored values {rflat[:5]}...')
        return False
    return True


def expected_path(mode, arrpath, basepath, filename='arrayvalues.bin'):
    if mode == 'rel':
        return filename
    if mode == 'base':
        return (__import__('pathlib').Path(basepath) / filename).as_posix()
    return os.path.join(os.path.realpath(arrpath), filename)


NAMES = {None: ('data', 'x.darr'), 'unicode': ('d\u00e4t\u00e4 \u00fc', 'x \u00f6\u20ac.darr'), 'space-dash': ('-my data', 'x y.darr.'), 'cjk': ('\u6570\u636e', '\u043c\u0430\u0441\u0441\u0438\u0432.darr')}


def layout(d, names=None):
    """root/data/x.darr ; cwd for 'base' is root with basepath 'data/x.darr'; unrelated cwd for 'abs'.
    names: other directory names (non-ASCII letters, spaces, a leading dash, a trailing dot)."""
    dn, an = NAMES[names]
    root = os.path.join(d, 'root')
    os.makedirs(os.path.join(root, dn))
    other = os.path.join(d, 'elsewhere')
    os.mkdir(other)
    return root, os.path.join(root, dn, an), other


def run_python_family(code, cwd):
    old = os.getcwd()
    os.chdir(cwd)
    try:
        ns = {}
        exec(compile(code, '<readcode>', 'exec'), ns)
        return ns
    finally:
        os.chdir(old)


def execute(ctx, spec):
    if spec['f'] == 'offer':
        return _exec_offer(ctx, spec)
    return _exec_prog(ctx, spec)


def _exec_offer(ctx, spec):
    import darr
    out = Outcome()
    out.cls('offer-table')
    t, shape = spec['t'], tuple(spec['shape'])
    with ctx.scratch() as d:
        a = darr.asarray(os.path.join(d, 'a.darr'), gens.build_array(gens.mkdtype(t, spec['bo']), shape, {'m': 'dist', 's': 1}))
        offered = []
        for lang in LANGS:
            code = a.readcode(lang)
            want = offered_by_docs(t, len(shape), lang)
            if code is None:
                out.cls('withheld')
            if (code is not None) != want:
                out.viol('offer-table-mismatch', f'{lang}:{t}:{"1-D" if len(shape) == 1 else "N-D"}',
                         f'readcode({lang!r}) for {t} {shape} is {"offered" if code is not None else "withheld"}, docs/readcode.rst says {"supported" if want else "not supported"}')
            if code is not None:
                offered.append(lang)
        got = a.readcodelanguages
        if tuple(got) != tuple(sorted(offered)):
            out.viol('readcodelanguages-mismatch', f'{t}:{len(shape)}', f'readcodelanguages={got}, offered={sorted(offered)}')
        try:
            a.readcode('perl')
            out.viol('unknown-language-accepted', 'perl', '')
        except ValueError:
            pass
        except Exception as e:
            out.viol('unknown-language-wrong-exception', 'perl', f'{type(e).__name__}')
    return out


def _exec_prog(ctx, spec):
    import darr
    out = Outcome()
    if spec.get('via'):          # (the symlink / relative-path layouts have names of their own)
        spec = dict(spec, names=None, bp=None)
    t, bo, shape, lang, pm = spec['t'], spec['bo'], tuple(spec['shape']), spec['lang'], spec['pm']
    out.cls('lang:' + lang, 'path:' + pm, f'rank:{len(shape)}')
    if t.startswith('complex'):
        out.cls('complex')
    if t == 'float16':
        out.cls('float16')
    if bo == '>':
        out.cls('bigendian')
    empty = 0 in shape
    if empty:
        out.cls('empty-array')
    if spec.get('large'):
        out.cls('large-array:>' + spec['large'])
    out.nontrivial = lang != 'darr'
    with ctx.scratch() as d:
        root, apath, other = layout(d, spec.get('names'))
        ref = gens.build_array(gens.mkdtype(t, bo), shape, {'m': 'dist', 's': spec.get('seed', 1)})
        basepath = '/'.join(NAMES[spec.get('names')])
        if spec.get('names'):
            out.cls('path:unusual-directory-names')
        if spec.get('via') == 'base-symlink-dotdot' and pm == 'base':
            # base-relative path with a '..' directly behind a symlinked directory: root/deep/sl -> root/data/sub, so that
            # deep/sl/../x.darr is root/data/x.darr while a lexical collapse names the decoy root/deep/x.darr
            out.cls('path:base-via-symlink-dotdot')
            os.makedirs(os.path.join(root, 'deep'))
            os.makedirs(os.path.join(root, 'data', 'sub'))
            os.symlink(os.path.join(root, 'data', 'sub'), os.path.join(root, 'deep', 'sl'))
            darr.asarray(os.path.join(root, 'deep', 'x.darr'), ref[::-1].copy() if ref.shape[0] > 1 else ref + 1)
            basepath = 'deep/sl/../x.darr'
        import pathlib
        class _FsPath:          # an os.PathLike that is neither str nor Path (its str() is NOT its path)
            def __init__(self, p_):
                self._p = p_

            def __fspath__(self):
                return self._p
        bparg = {0: basepath, 1: pathlib.Path(basepath), 2: basepath + '/', 3: _FsPath(basepath), 4: pathlib.PurePosixPath(basepath)}[spec.get('seed', 1) % 5]
        bp = spec.get('bp')
        if bp and pm == 'base':
            # the base path is the directory of the array itself, written as '' / '.' / './' / Path('') / Path('.'): the code is then
            # run there and has to name the data file like the relative form does
            out.cls('basepath:current-directory:' + bp)
            basepath = '.'
            bparg = {'empty': '', 'dot': '.', 'dotslash': './', 'emptypath': pathlib.Path(''), 'dotpath': pathlib.Path('.')}[bp]
        if spec.get('seed', 1) % 5 == 3 and pm == 'base':
            out.cls('basepath:os.PathLike-object')
        churn = spec.get('churn')
        churn = 'grow-shrink-grow' if churn is True else churn
        pargs = dict(abspath=(pm == 'abs'), basepath=(bparg if pm == 'base' else None))    # exactly the final question
        if churn == 'grow-shrink-grow' and shape[0] >= 2:
            # reach the same state through a history on one live handle (grow, ask for code, shrink, grow differently)
            out.cls('after-history-on-live-handle')
            a = darr.asarray(apath, ref[:1], accessmode='r+')
            a.append(ref[:shape[0] - 1])
            a.readcode(lang)
            darr.truncate_array(a, 1)
            a.iterappend([ref[1:2], ref[2:]])
        elif churn == 'ask-trunc-ask' and shape[0] >= 1:
            # the same question asked before and after a truncation on one handle (nothing else in between)
            out.cls('after-history-on-live-handle', 'churn:ask-trunc-ask')
            a = darr.asarray(apath, np.concatenate([ref, ref[:1], ref[:1]]).astype(ref.dtype), accessmode='r+')
            a.readcode(lang, **pargs)
            a.readcodelanguages
            darr.truncate_array(a, shape[0])
        elif churn == 'change-and-ask-inside-context' and shape[0] >= 2:
            # inside one open_array() block the array grows (or shrinks) and the code is requested there, through the same handle
            out.cls('after-history-on-live-handle', 'churn:change-and-ask-inside-context')
            a = darr.asarray(apath, ref[:1], accessmode='r+')
            inside_code = None
            with a.open_array():
                a.readcode(lang, **pargs)
                a.append(ref[1:])
                inside_code = a.readcode(lang, **pargs)
        elif churn == 'r-ask-r+-append-r-ask' and shape[0] >= 2:
            # a READ-ONLY handle is asked for code, switched to r+, the array grows through it, it is switched back and asked again
            out.cls('after-history-on-live-handle', 'churn:r-ask-r+-append-r-ask')
            darr.asarray(apath, ref[:1])
            a = darr.Array(apath)          # accessmode 'r'
            a.readcode(lang, **pargs)
            a.readcodelanguages
            a.accessmode = 'r+'
            a.append(ref[1:])
            a.accessmode = 'r'
        elif churn == 'ask-append-ask' and shape[0] >= 2:
            out.cls('after-history-on-live-handle', 'churn:ask-append-ask')
            a = darr.asarray(apath, ref[:1], accessmode='r+')
            a.readcode(lang, **pargs)
            a.append(ref[1:])
        else:
            a = darr.asarray(apath, ref)
        if spec.get('via') == 'symlink-dotdot':
            # the same array, reached through <other>/deep/sl/../x.darr where sl is a symlink to the array's parent's child:
            # collapsing '..' lexically would name <other>/deep/x.darr (a decoy) instead
            out.cls('path:via-symlink-dotdot')
            os.makedirs(os.path.join(other, 'deep'))
            os.makedirs(os.path.join(root, 'data', 'sub'))
            os.symlink(os.path.join(root, 'data', 'sub'), os.path.join(other, 'deep', 'sl'))
            darr.asarray(os.path.join(other, 'deep', 'x.darr'), ref[::-1].copy() if ref.shape[0] > 1 else ref + 1)
            a = darr.Array(os.path.join(other, 'deep', 'sl', '..', 'x.darr'), accessmode='r')
        elif spec.get('via') == 'relative':
            out.cls('path:handle-opened-by-relative-path')
            old = os.getcwd()
            os.chdir(root)
            try:
                ar = darr.Array(os.path.join('data', 'x.darr') if spec.get('seed', 1) % 2 else __import__('pathlib').Path('data') / 'x.darr')
                relcode = ar.readcode(lang, abspath=(pm == 'abs'), basepath=('data/x.darr' if pm == 'base' else None))
                ar = None
            finally:
                os.chdir(old)
        if spec.get('both') and pm == 'abs' and not spec.get('via'):
            out.cls('call:abspath-and-basepath')      # absolute paths requested AND a base path given: the paths are absolute
            code = a.readcode(lang, abspath=True, basepath=bparg)
        elif spec.get('seed', 1) % 4 == 3 or spec.get('positional'):
            out.cls('call:positional-arguments')      # the same call with abspath and basepath given by position
            code = a.readcode(lang, pm == 'abs', bparg if pm == 'base' else None)
        else:
            code = a.readcode(lang, abspath=(pm == 'abs'), basepath=(bparg if pm == 'base' else None))
        if spec.get('via') == 'relative':
            code = relcode        # generated while the working directory was the one the relative path refers to
        elif churn == 'change-and-ask-inside-context' and shape[0] >= 2 and inside_code != code:
            out.viol('code-differs-inside-context', f'{lang}:{pm}', 'readcode() asked inside the open_array() block in which the array grew differs from the one asked afterwards')
            code = inside_code
        if code is None:
            out.nontrivial = False
            return out
        cwd = {'rel': apath, 'base': apath if (spec.get('bp') and pm == 'base') else root, 'abs': other}[pm]
        cls = ('complex' if t.startswith('complex') else 'float16' if t == 'float16' else 'real') + (':rank>=3' if len(shape) >= 3 else '')
        tag = f'{lang}:{cls}' + (':empty' if empty else '')
        if spec.get('legacy'):
            # a directory as earlier versions of the library wrote it: no 'darrobject' entry in the description (the library opens
            # such a directory); running the generated code must leave every file as it is
            out.cls('legacy-description-without-darrobject')
            import json as _json
            dp = os.path.join(apath, 'arraydescription.json')
            with open(dp) as f_:
                dj = _json.load(f_)
            dj.pop('darrobject', None)
            with open(dp, 'w') as f_:
                _json.dump(dj, f_, sort_keys=True, indent=4)
        before = snapshot(apath)
        if lang == 'darr' and "'path_to_data_dir'" not in code:
            out.cls('darr-placeholder-not-located')
            return out
        if lang in ('numpy', 'numpymemmap', 'python', 'darr'):
            src = code.replace("'path_to_data_dir'", repr(apath)) if lang == 'darr' else code
            try:
                ns = run_python_family(src, cwd)
            except Exception as e:
                ns = None
                if not empty:
                    out.viol('python-code-raised', f'{tag}:{pm}', f'{type(e).__name__}: {e}\n{code}')
            after = snapshot(apath)
            if after != before:
                out.viol('running-the-code-changed-files', tag, '; '.join(diff(before, after)))
                return out
            if ns is None or empty:
                return out
            v = ns.get('a')
            if lang in ('numpy', 'numpymemmap'):
                if not isinstance(v, np.ndarray) or np.dtype(v.dtype).str != ref.dtype.str or v.shape != ref.shape or v.tobytes() != ref.tobytes():
                    out.viol('wrong-values', f'{tag}:{pm}', f'a = {getattr(v, "dtype", None)}{getattr(v, "shape", None)}, stored {ref.dtype.str}{ref.shape}')
                if lang == 'numpymemmap' and isinstance(v, np.memmap) and v.flags.writeable:
                    out.viol('opens-for-writing', tag, 'np.memmap result is writeable')
            elif lang == 'python':
                refn = ref.astype(ref.dtype.newbyteorder('='))
                if t.startswith('complex'):
                    ok = isinstance(ns.get('real'), pyarray.array) and isinstance(ns.get('imag'), pyarray.array) and \
                        list(ns['real']) == refn.real.tolist() and list(ns['imag']) == refn.imag.tolist()
                else:
                    ok = isinstance(v, pyarray.array) and list(v) == refn.tolist()
                if not ok:
                    out.viol('wrong-values', f'{tag}:{pm}', f'array.array result differs from the stored values')
            else:
                if not isinstance(v, darr.Array) or v[:].tobytes() != ref.tobytes():
                    out.viol('wrong-values', f'{tag}:{pm}', 'darr code does not open the array')
            v = ns = None
            return out
        # ---- foreign dialects
        try:
            it = dialects.make(lang, cwd)
            try:
                it.run(code)
            except Modifies as e:
                out.viol('opens-for-writing', tag, str(e))
                return out
            except IllFormed as e:
                if not empty:
                    out.viol('ill-formed-program', tag, f'{e}\n{code}')
                it_failed = True
            else:
                it_failed = False
        except NotUnderstood as e:
            raise HarnessError(f'reference interpreter for {lang} does not understand the generated code: {e}\n{code}')
        except Indeterminate:
            out.cls('indeterminate')
            return out
        if snapshot(apath) != before:
            raise HarnessError('the reference interpreter itself modified the array directory')
        for pth, mode in it.opened:
            if any(c in mode for c in 'wa+'):
                out.viol('opens-for-writing', tag, f'{pth!r} opened with mode {mode!r}')
        want_path = expected_path(pm, apath, basepath)
        paths = [p for p, _ in it.opened]
        datafile = os.path.join(apath, 'arrayvalues.bin')

        def same_path(p):
            # the requested spelling, or a lexically equivalent one that still names the data file
            if p == want_path:
                return True
            try:
                return os.path.normpath(p) == os.path.normpath(want_path) and os.path.isabs(p) == os.path.isabs(want_path) and \
                    os.path.samefile(os.path.join(cwd, p), datafile)
            except OSError:
                return False
        if not paths or any(not same_path(p) for p in paths):
            out.viol('wrong-path', f'{lang}:{pm}', f'code refers to {paths}, requested path is {want_path!r}')
        if empty or it_failed:
            return out
        if 'a' not in it.env:
            out.viol('result-unbound', tag, f'the program does not bind the variable a\n{code}')
            return out
        check_foreign_result(out, it, it.env['a'], ref, tag)
    return out


def prog_specs(seeds=(1,)):
    for seed in seeds:
        for t, bo, shape, lang, pm in itertools.product(NUMTYPES, '<>', SHAPES, LANGS, PATHMODES):
            yield {'f': 'prog', 't': t, 'bo': bo, 'shape': list(shape), 'lang': lang, 'pm': pm, 'seed': seed}
    for t, shape, lang in itertools.product(NUMTYPES, [(4,), (3, 2)], LANGS):
        yield {'f': 'prog', 't': t, 'bo': '>', 'shape': list(shape), 'lang': lang, 'pm': 'rel', 'seed': 1, 'churn': True}
    for t, shape, lang, pm, churn in itertools.product(['int32', 'float16', 'complex128'], [(4,), (3, 2)], LANGS, PATHMODES,
                                                       ['ask-trunc-ask', 'ask-append-ask', 'change-and-ask-inside-context', 'r-ask-r+-append-r-ask']):
        yield {'f': 'prog', 't': t, 'bo': '<', 'shape': list(shape), 'lang': lang, 'pm': pm, 'seed': 4, 'churn': churn}
    for t, shape, lang in itertools.product(['int16', 'float64', 'complex64'], [(3,), (3, 2)], LANGS):
        yield {'f': 'prog', 't': t, 'bo': '<', 'shape': list(shape), 'lang': lang, 'pm': 'base', 'seed': 2, 'via': 'base-symlink-dotdot'}
    for t, shape, lang, pm in itertools.product(['uint8', 'float32'], [(3,), (3, 2)], LANGS, PATHMODES):
        yield {'f': 'prog', 't': t, 'bo': '<', 'shape': list(shape), 'lang': lang, 'pm': pm, 'seed': 8, 'positional': True}
    for t, lang, pm, via in itertools.product(['int16', 'float64', 'complex64'], LANGS, PATHMODES, ['symlink-dotdot', 'relative']):
        yield {'f': 'prog', 't': t, 'bo': '<', 'shape': [3, 2], 'lang': lang, 'pm': pm, 'seed': 2, 'via': via}
    for t, shape, lang in itertools.product(NUMTYPES, [(0,), (0, 3)], LANGS):
        yield {'f': 'prog', 't': t, 'bo': '<', 'shape': list(shape), 'lang': lang, 'pm': 'rel', 'seed': 1}
    yield from large_specs(thorough=len(seeds) > 1)
    for t, lang, pm in itertools.product(['int16', 'float64'], LANGS, ['rel', 'abs']):
        yield {'f': 'prog', 't': t, 'bo': '<', 'shape': [3, 2], 'lang': lang, 'pm': pm, 'seed': 5, 'legacy': True}
    for lang in LANGS:
        yield {'f': 'prog', 't': 'int32', 'bo': '>', 'shape': [2, 3], 'lang': lang, 'pm': 'abs', 'seed': 5, 'both': True}
    for t, lang, bp in itertools.product(['int16', 'float64', 'complex64'], LANGS, ['empty', 'dot', 'dotslash', 'emptypath', 'dotpath']):
        yield {'f': 'prog', 't': t, 'bo': '<', 'shape': [3, 2], 'lang': lang, 'pm': 'base', 'seed': 5, 'bp': bp}
    for t, lang, pm, names in itertools.product(['uint8', 'float32', 'complex128'], LANGS, PATHMODES, ['unicode', 'space-dash', 'cjk']):
        yield {'f': 'prog', 't': t, 'bo': '>', 'shape': [2, 3], 'lang': lang, 'pm': pm, 'seed': 6, 'names': names}


def large_specs(thorough):
    # arrays just above a megabyte, 16 MiB and 64 MiB: a reader may be chosen by size, and has to be right at every size
    for lang in LANGS:
        for bo in '<>':
            yield {'f': 'prog', 't': 'int16', 'bo': bo, 'shape': [2 ** 19 + 1], 'lang': lang, 'pm': 'rel', 'seed': 1, 'large': '1MiB'}
            yield {'f': 'prog', 't': 'float32', 'bo': bo, 'shape': [1025, 257], 'lang': lang, 'pm': 'rel', 'seed': 1, 'large': '1MiB'}
        yield {'f': 'prog', 't': 'float64', 'bo': '>', 'shape': [2 ** 23 + 1], 'lang': lang, 'pm': 'rel', 'seed': 1, 'large': '64MiB'}
        if thorough:
            yield {'f': 'prog', 't': 'float64', 'bo': '<', 'shape': [2 ** 23 + 1], 'lang': lang, 'pm': 'base', 'seed': 1, 'large': '64MiB'}
            yield {'f': 'prog', 't': 'int32', 'bo': '>', 'shape': [4097, 1025], 'lang': lang, 'pm': 'abs', 'seed': 1, 'large': '16MiB'}
            yield {'f': 'prog', 't': 'complex64', 'bo': '>', 'shape': [2049, 4097], 'lang': lang, 'pm': 'rel', 'seed': 1, 'large': '64MiB'}
            yield {'f': 'prog', 't': 'uint8', 'bo': '<', 'shape': [2 ** 27 + 1], 'lang': lang, 'pm': 'rel', 'seed': 1, 'large': '128MiB'}


def offer_specs():
    for t, bo, shape in itertools.product(NUMTYPES, '<>', [(4,), (2, 3), (2, 1, 3)]):
        yield {'f': 'offer', 't': t, 'bo': bo, 'shape': list(shape)}


@st.composite
def st_prog(draw):
    rank = draw(st.integers(1, 4))
    return {'f': 'prog', 't': draw(st.sampled_from(NUMTYPES)), 'bo': draw(st.sampled_from('<>')),
            'shape': [draw(st.integers(1, 6)) for _ in range(rank)], 'lang': draw(st.sampled_from(LANGS)),
            'pm': draw(st.sampled_from(PATHMODES)), 'seed': draw(st.integers(0, 2 ** 20)), 'churn': draw(st.sampled_from([None, None, True, 'ask-trunc-ask', 'ask-append-ask', 'change-and-ask-inside-context', 'r-ask-r+-append-r-ask'])),
            'via': draw(st.sampled_from([None, None, 'symlink-dotdot', 'relative', 'base-symlink-dotdot'])),
            'names': draw(st.sampled_from([None, None, None, 'unicode', 'space-dash', 'cjk'])), 'bp': draw(st.sampled_from([None, None, None, None, 'empty', 'dot', 'dotslash', 'emptypath', 'dotpath'])),
            'legacy': draw(st.sampled_from([False, False, False, True])), 'both': draw(st.sampled_from([False, False, True]))}


def task_enum(ctx, col, shard, seeds):
    specs = itertools.chain(prog_specs(seeds), offer_specs())
    enum_search(ctx, col, (s for i, s in enumerate(specs) if i % NSHARDS == shard), lambda s: execute(ctx, s))


def task_random(ctx, col, shard, n):
    hyp_search(ctx, col, st_prog(), lambda s: execute(ctx, s), shard_seed(ctx, shard), n)




def interpreter_selftest(ctx):
    """The reference interpreters are the trusted base: refuse to run if their own self-test fails."""
    import subprocess, sys
    env = dict(os.environ, PYTHONPATH=os.pathsep.join([ctx.home, ctx.darr_src]))
    p = subprocess.run([sys.executable, '-B', '-W', 'ignore', os.path.join(ctx.home, 'tools', 'langtest.py')], capture_output=True, text=True, env=env)
    if p.returncode != 0:
        raise HarnessError('reference-interpreter self-test failed:\n' + (p.stdout + p.stderr)[-1500:])


def tasks(ctx):
    interpreter_selftest(ctx)
    seeds = (ctx.seed,) if ctx.tier == 'quick' else tuple(ctx.seed * 100 + i for i in range(20))
    t = []
    for sh in range(NSHARDS):
        t.append((task_enum, dict(shard=sh, seeds=seeds)))
        t.append((task_random, dict(shard=sh, n=ctx.pick(400, 3000))))
    return t
