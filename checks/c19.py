"""C19 - interleaved iterators/contexts on one Array are memory-safe and coherent.

Schedules over the actions {start generator g, advance g, close g, drop g
without closing, enter open_array() context, exit context, read element, write
element}, completed by a generated order of finishing the survivors, are run
each in a FORKED CHILD on a private copy of a 4 MB int64 array opened 'r+'.  The
child compares every chunk / element with an in-memory model at the moment it is
returned, applies writes to the model, and at the end checks that no descriptor
of the data file is left open and that a fresh handle equals the model.  The
parent treats death by signal as a violation - the crash is observed, not
suffered.
"""
import itertools, os, gc, json, shutil, itertools, traceback
import numpy as np
from hypothesis import strategies as st
from vlib.runner import Outcome, hyp_search, enum_search, shard_seed, NSHARDS, HarnessError
from vlib.snap import open_fds_for, maps_for
from checks.c14 import ref_frames

PROPERTY = 'C19'
LEVEL = 'exploration'
RULE = ("(array: 1 MB int64 in the quick tier, 4 MB in the thorough tier) schedule = list of actions over <=3 iterchunks generators (different chunklen/stepsize/start/end/remainder), <=2 nested "
        "open_array() contexts, element reads and writes, + a finishing order (exhaust|close|drop per survivor, contexts exited "
        "LIFO); bounded-exhaustive: every well-formed schedule up to length L over 2 generators + 1 context, and Hypothesis-generated "
        "longer ones; each schedule runs in its own forked process; oracle = in-memory model of the contents at the moment of every "
        "return, no crash, no open descriptor / mapping of the data file at the end, fresh handle == model; non-trivial = >= 2 "
        "concurrent users of the map with a non-LIFO finish order, or a write while a generator is live; distinct = canonical schedule")
ASSUMPTIONS = ["single-threaded interleavings of generator steps only: the harness owns the schedule; no OS threads",
               "a use-after-unmap is detected when it crashes the forked child or yields wrong values; there is no sanitizer under CPython",
               "'dropped' generators are finalised by CPython reference counting (+ gc.collect())"]
EXHAUSTIVE = None
MUST_HIT = ['refused-write-while-shared', 'generator-advanced-thousands-of-times', 'write-next-to-generator-position', 'mixed-access-modes', 'failing-access-while-shared', 'owner-finishes-before-borrower-advances', 'generator-dropped', 'write-while-two-generators-live', 'ctx-exit-before-generator-advance',
            'generator-closed-early', 'nested-contexts', 'started-inside-context-advanced-after-exit']
N = 131072      # int64 elements = 1 MB (well above malloc's mmap threshold, so an unmapped region is really gone); thorough: 4 MB
GPARAMS = [dict(chunklen=25000), dict(chunklen=17500, stepsize=37500, startindex=250, endindex=125000),
           dict(chunklen=65536, stepsize=32768, include_remainder=False)]


def psets():
    """Generator parameter sets: 0 = one adjacent + two strided generators; 1 = three generators with adjacent frames (default
    step) of different lengths; 2 = overlapping frames, and frames small enough (< 4096 bytes) to sit inside one stdio buffer."""
    c = GPARAMS[0]['chunklen']
    return [GPARAMS,
            [dict(chunklen=c), dict(chunklen=c * 7 // 10), dict(chunklen=c // 50, startindex=c // 100, endindex=c * 2)],
            [dict(chunklen=c * 6 // 5, stepsize=c * 2 // 5), dict(chunklen=300, stepsize=100, startindex=100, endindex=5000),
             dict(chunklen=500, startindex=0, endindex=20000)],
            # 3 = generators with one or two frames only, so that short schedules reach 'closed right after its LAST chunk'
            [dict(chunklen=N), dict(chunklen=N // 2), dict(chunklen=N // 2 + 1)],
            # 4 = a generator with many thousands of small frames next to coarse ones (advanced thousands of times by 'nextn')
            [dict(chunklen=N // 4), dict(chunklen=8), dict(chunklen=16, stepsize=8, endindex=N // 2)]]


def _scale(ctx):
    """The thorough tier uses the 4 MB array of the design; the quick tier a 1 MB one (4x cheaper per forked schedule)."""
    global N, GPARAMS
    if ctx.thorough and N == 131072:
        N = 524288
        GPARAMS = [dict(chunklen=100000), dict(chunklen=70000, stepsize=150000, startindex=1000, endindex=500000),
                   dict(chunklen=262144, stepsize=131072, include_remainder=False)]


_BASE = {}


def base_array(ctx):
    import darr
    key = ctx.root()
    if key not in _BASE:
        p = os.path.join(key, 'base.darr')
        darr.asarray(p, np.arange(N, dtype='<i8') * 3 + 1, accessmode='r+')
        _BASE[key] = p
    return _BASE[key]


def normalise(actions, ngen=3, maxdepth=2):
    """Drop actions that are not applicable in the state they would be executed in (so any list is well-formed)."""
    alive, started, depth = set(), set(), 0
    out = []
    for a in actions:
        k = a[0]
        if k == 'start':
            if a[1] in started or a[1] >= ngen:
                continue
            started.add(a[1])
            alive.add(a[1])
        elif k in ('next', 'close', 'drop', 'nextn', 'readhook', 'writehook'):
            if a[1] not in alive:
                continue
            if k not in ('next', 'nextn'):
                alive.discard(a[1])
        elif k == 'enter':
            if depth >= maxdepth:
                continue
            depth += 1
        elif k == 'exit':
            if depth == 0:
                continue
            depth -= 1
        out.append(a)
    return out


def classify(actions, finish, out):
    """Static classification of a normalised schedule (for the generator self-check and non-triviality)."""
    opened_by = None        # who opened the shared map first: ('g', i) or ('ctx',)
    users = []              # stack/list of current users in opening order
    started_in_ctx = set()
    nontrivial = False
    seq = list(actions) + [['finish'] + list(f) for f in finish]
    if any(a[0] == 'nextn' and a[2] >= 4000 for a in actions):
        out.cls('generator-advanced-thousands-of-times')
    live = set()
    depth = 0
    finished_first_owner = False
    for a in seq:
        k = a[0]
        if k == 'finish':
            k, a = a[1], [a[1], a[2]] if len(a) > 2 else [a[1]]
        if k == 'start':
            pass
        elif k in ('next', 'nextn'):
            g = a[1]
            if ('g', g) not in users:
                users.append(('g', g))
                live.add(g)
                if depth > 0:
                    started_in_ctx.add(g)
            else:
                if users and users[0] != ('g', g) and finished_first_owner:
                    pass
            if finished_first_owner and ('g', g) in users:
                out.cls('owner-finishes-before-borrower-advances')
                nontrivial = True
            if g in started_in_ctx and depth == 0:
                out.cls('started-inside-context-advanced-after-exit')
                out.cls('ctx-exit-before-generator-advance')
                nontrivial = True
        elif k in ('close', 'drop', 'exhaust'):
            g = a[1]
            if ('g', g) in users:
                if users[0] == ('g', g) and len(users) > 1:
                    finished_first_owner = True
                users.remove(('g', g))
                live.discard(g)
                if k == 'drop':
                    out.cls('generator-dropped')
                if k == 'close':
                    out.cls('generator-closed-early')
        elif k == 'enter':
            users.append(('ctx', depth))
            depth += 1
            if depth == 2:
                out.cls('nested-contexts')
        elif k == 'exit':
            depth -= 1
            if ('ctx', depth) in users:
                if users[0] == ('ctx', depth) and len(users) > 1:
                    finished_first_owner = True
                    out.cls('ctx-exit-before-generator-advance') if any(u[0] == 'g' for u in users) else None
                users.remove(('ctx', depth))
        elif k in ('write', 'wnear'):
            if k == 'wnear':
                out.cls('write-next-to-generator-position')
            if len(live) >= 2:
                out.cls('write-while-two-generators-live')
            if live:
                nontrivial = True
        if not users:
            finished_first_owner = False
    return nontrivial


def child_run(path, actions, finish, hmode='r+', pset=0):
    """Executed in the forked child. Returns None if fine, else a violation dict."""
    import darr
    a = darr.Array(path, accessmode=hmode)
    model = np.arange(N, dtype='<i8') * 3 + 1
    gens, frames, pos = {}, {}, {}
    ctxs = []
    held = []        # generator objects the caller closed but still holds (a closed generator must not keep the file open either)

    def check_chunk(g, chunk):
        fr = frames[g]
        i = pos[g]
        if i >= len(fr):
            return {'kind': 'extra-chunk', 'callsite': 'iterchunks', 'detail': f'generator {g} yielded more chunks than frames'}
        f0, f1 = fr[i]
        pos[g] = i + 1
        want = model[f0:f1]
        if not isinstance(chunk, np.ndarray) or chunk.shape != want.shape or not np.array_equal(chunk, want):
            return {'kind': 'wrong-chunk', 'callsite': 'iterchunks', 'detail': f'generator {g} frame {(f0, f1)}: chunk differs from the contents at the moment it was returned'}
        return None

    def finish_gen(g, how):
        gen = gens.pop(g)
        if how == 'close':
            gen.close()
            held.append(gen)
        elif how == 'drop':
            del gen
            gc.collect()
        else:
            for chunk in gen:
                v = check_chunk(g, chunk)
                if v:
                    return v
            if pos[g] != len(frames[g]):
                return {'kind': 'missing-chunks', 'callsite': 'iterchunks', 'detail': f'generator {g} stopped after {pos[g]} of {len(frames[g])} frames'}
        return None

    for act in actions:
        k = act[0]
        if k == 'start':
            g = act[1]
            p = psets()[pset][g]
            gens[g] = a.iterchunks(**p)
            frames[g] = ref_frames(N, p['chunklen'], p.get('stepsize'), p.get('startindex'), p.get('endindex'), p.get('include_remainder', True))[0]
            pos[g] = 0
        elif k == 'next':
            g = act[1]
            if g not in gens:
                continue
            try:
                chunk = next(gens[g])
            except StopIteration:
                if pos[g] != len(frames[g]):
                    return {'kind': 'missing-chunks', 'callsite': 'iterchunks', 'detail': f'generator {g} stopped early'}
                gens.pop(g)
                continue
            v = check_chunk(g, chunk)
            if v:
                return v
        elif k in ('readhook', 'writehook'):
            # an element access whose index object, while NumPy evaluates it (__index__), closes / exhausts generator g - user code
            # running in the middle of the access, on the same array object
            g, how = act[1], act[2]
            box = []

            class _Idx:
                def __index__(self_):
                    if g in gens and not box:
                        box.append(finish_gen(g, how))
                    return 7
            if k == 'readhook':
                got = a[_Idx()]
                if got != model[7]:
                    return {'kind': 'wrong-element', 'callsite': 'getitem', 'detail': f'a[index object] = {got}, model {model[7]}'}
            else:
                a[_Idx()] = -77
                model[7] = -77
            if box and box[0]:
                return box[0]
        elif k == 'nextn':
            g = act[1]
            for _ in range(act[2]):
                if g not in gens:
                    break
                try:
                    chunk = next(gens[g])
                except StopIteration:
                    if pos[g] != len(frames[g]):
                        return {'kind': 'missing-chunks', 'callsite': 'iterchunks', 'detail': f'generator {g} stopped early'}
                    gens.pop(g)
                    break
                v = check_chunk(g, chunk)
                if v:
                    return v
        elif k in ('close', 'drop'):
            if act[1] in gens:
                v = finish_gen(act[1], k)
                if v:
                    return v
        elif k == 'enter':
            c = a.open_array(accessmode=act[1]) if len(act) > 1 else a.open_array()
            c.__enter__()
            ctxs.append(c)
        elif k == 'badread':
            # a failing, handled access: must not disturb the other users of the map
            try:
                a[N + 5]
                return {'kind': 'wrong-element', 'callsite': 'getitem', 'detail': 'out-of-range read did not raise'}
            except IndexError:
                pass
        elif k == 'exit':
            if ctxs:
                ctxs.pop().__exit__(None, None, None)
        elif k == 'read':
            i = act[1] % N
            got = a[i]
            if got != model[i]:
                return {'kind': 'wrong-element', 'callsite': 'getitem', 'detail': f'a[{i}] = {got}, model {model[i]}'}
            sl = a[i:i + 5]
            if not np.array_equal(sl, model[i:i + 5]):
                return {'kind': 'wrong-element', 'callsite': 'getitem', 'detail': f'a[{i}:{i + 5}]'}
        elif k == 'wnear':
            # a write next to where generator g is: act[2] elements before (negative) or after the end of its last returned frame
            g = act[1]
            if g in pos and 0 < pos[g] <= len(frames[g]):
                i = min(max(frames[g][pos[g] - 1][1] + act[2], 0), N - 5)
                a[i] = act[3]
                model[i] = act[3]
        elif k == 'write':
            i = act[1] % N
            a[i] = act[2]
            model[i] = act[2]
            a[i + 1:i + 4] = act[2] + 1
            model[i + 1:i + 4] = act[2] + 1
        elif k == 'rowrite':
            # a write that is refused when the map in use is read-only (a handled failure, like 'badread'), and simply takes
            # effect when it is not: either way the other users of the map must not notice
            i = act[1] % N
            try:
                a[i] = act[2]
            except Exception:
                pass
            else:
                model[i] = act[2]
    for f in finish:
        if f[0] == 'exit':
            if ctxs:
                ctxs.pop().__exit__(None, None, None)
        elif f[1] in gens:
            v = finish_gen(f[1], f[0])
            if v:
                return v
    while ctxs:
        ctxs.pop().__exit__(None, None, None)
    for g in list(gens):
        v = finish_gen(g, 'exhaust')
        if v:
            return v
    gc.collect()
    fds, maps = open_fds_for(path), maps_for(path)
    if fds or maps:
        del held
        return {'kind': 'descriptor-leak', 'callsite': 'end-of-schedule', 'detail': f'still open after all generators and contexts finished: fds={fds} maps={maps[:1]}'}
    import darr as d2
    fresh = d2.Array(path)[:]
    if not np.array_equal(fresh, model):
        bad = int(np.nonzero(fresh != model)[0][0])
        return {'kind': 'lost-write', 'callsite': 'setitem', 'detail': f'fresh handle differs from the model at index {bad}'}
    return None


_FROZEN = []


def execute(ctx, spec):
    _scale(ctx)
    if not _FROZEN:
        gc.collect()
        gc.freeze()         # children call gc.collect(); keep the parent's heap out of their collections
        _FROZEN.append(1)
    out = Outcome()
    actions = normalise([list(a) for a in spec['actions']])
    finish = [list(f) for f in spec.get('finish', [])]
    hmode = spec.get('hmode', 'r+')
    if hmode != 'r+' or any(a[0] == 'enter' and len(a) > 1 for a in actions):
        # mixed access modes: whether a write is possible depends on who opened the shared map first; keep to reads
        actions = [a for a in actions if a[0] not in ('write', 'wnear', 'writehook')]
        out.cls('mixed-access-modes')
    if any(a[0] == 'badread' for a in actions):
        out.cls('failing-access-while-shared')
    if any(a[0] == 'rowrite' for a in actions):
        out.cls('refused-write-while-shared')
    out.nontrivial = classify(actions, finish, out)
    base = base_array(ctx)
    with ctx.scratch() as d:
        path = os.path.join(d, 'a.darr')
        shutil.copytree(base, path)
        r, w = os.pipe()
        pid = os.fork()
        if pid == 0:
            code = 0
            try:
                os.close(r)
                v = child_run(path, actions, finish, hmode, spec.get('pset', 0))
                if v is not None:
                    os.write(w, json.dumps(v).encode())
                    code = 1
            except BaseException:
                try:
                    os.write(w, json.dumps({'harness': traceback.format_exc()[-1500:]}).encode())
                except Exception:
                    pass
                code = 2
            finally:
                os._exit(code)
        os.close(w)
        data = b''
        while True:
            b = os.read(r, 65536)
            if not b:
                break
            data += b
        os.close(r)
        _, status = os.waitpid(pid, 0)
        if os.WIFSIGNALED(status):
            out.viol('interpreter-crash', f'signal-{os.WTERMSIG(status)}', f'child killed by signal {os.WTERMSIG(status)} while running {actions} finish {finish}')
        else:
            code = os.WEXITSTATUS(status)
            if code == 1:
                v = json.loads(data.decode())
                out.viol(v['kind'], v['callsite'], v['detail'])
            elif code == 2:
                try:
                    info = json.loads(data.decode()).get('harness', '')
                except Exception:
                    info = ''
                # an exception raised by Darr itself inside a well-formed schedule is a violation of 'coherent', others are ours
                if 'darr/' in info and 'checks/c19.py' in info:
                    last = [l for l in info.strip().splitlines() if l.strip()][-1]
                    out.viol('schedule-raised', last.split(':')[0][:40], info[-600:])
                else:
                    raise HarnessError(info)
    return out


# ------------------------------------------------------------------ enumeration
def alphabet():
    return [['start', 0], ['start', 1], ['next', 0], ['next', 1], ['close', 0], ['close', 1], ['drop', 0], ['drop', 1], ['enter'], ['exit'],
            ['read', 12345], ['write', 60000, -7], ['badread']]


def wellformed(L):
    """All well-formed schedules (as action lists) of length 1..L over 2 generators and 1 context."""
    A = alphabet()

    def rec(prefix, alive, started, depth):
        if prefix:
            yield list(prefix)
        if len(prefix) == L:
            return
        for a in A:
            k = a[0]
            if k == 'start' and a[1] in started:
                continue
            if k in ('next', 'close', 'drop') and a[1] not in alive:
                continue
            if k == 'enter' and depth >= 1:
                continue
            if k == 'exit' and depth == 0:
                continue
            na, ns, nd = set(alive), set(started), depth
            if k == 'start':
                ns.add(a[1])
                na.add(a[1])
            elif k in ('close', 'drop'):
                na.discard(a[1])
            elif k == 'enter':
                nd += 1
            elif k == 'exit':
                nd -= 1
            prefix.append(a)
            yield from rec(prefix, na, ns, nd)
            prefix.pop()
    yield from rec([], set(), set(), 0)


def enum_specs(L):
    for acts in wellformed(L):
        # interesting only if a generator was both started and advanced, or a context is involved together with a generator
        if not any(a[0] == 'next' for a in acts) and (len(acts) > 3 or not any(a[0] in ('close', 'drop') for a in acts)):
            continue        # (without an advance only the short start/close/drop patterns are of interest: never-advanced generators)
        # two finishing orders for the survivors
        yield {'actions': acts, 'finish': [['exhaust', 0], ['exhaust', 1], ['exit']]}
        yield {'actions': acts, 'finish': [['exit'], ['exhaust', 1], ['close', 0]]}
        if len(acts) <= L - 1 and any(a[0] == 'enter' for a in acts) and not any(a[0] == 'write' for a in acts):
            # the same schedule on a read-only handle whose context asks for 'r+' explicitly
            acts2 = [a if a[0] != 'enter' else ['enter', 'r+'] for a in acts]
            yield {'actions': acts2, 'finish': [['exhaust', 0], ['exit'], ['exhaust', 1]], 'hmode': 'r'}


@st.composite
def st_schedule(draw):
    n = draw(st.integers(3, 25))
    acts = []
    for _ in range(n):
        k = draw(st.sampled_from(['start', 'next', 'next', 'next', 'close', 'drop', 'enter', 'exit', 'read', 'write', 'badread', 'wnear', 'rowrite']))
        if k == 'rowrite':
            acts.append(['rowrite', draw(st.integers(0, N - 10)), draw(st.integers(-1000, 1000))])
            continue
        if k == 'wnear' and draw(st.integers(0, 5)) == 1:
            acts.append([draw(st.sampled_from(['readhook', 'writehook'])), draw(st.integers(0, 2)), draw(st.sampled_from(['close', 'exhaust', 'drop']))])
            continue
        if k == 'wnear' and draw(st.integers(0, 5)) == 0:
            acts.append(['nextn', draw(st.integers(0, 2)), draw(st.sampled_from([50, 1000, 4100, 4200]))])
            continue
        if k == 'wnear':
            acts.append(['wnear', draw(st.integers(0, 2)), draw(st.sampled_from([-1, -2, -50, -150, -250, 0, 1, 10, 100, 400, 600, 3000])), draw(st.integers(-1000, 1000))])
            continue
        if k in ('start', 'next', 'close', 'drop'):
            acts.append([k, draw(st.integers(0, 2))])
        elif k == 'read':
            acts.append(['read', draw(st.integers(0, N - 10))])
        elif k == 'write':
            acts.append(['write', draw(st.integers(0, N - 10)), draw(st.integers(-1000, 1000))])
        elif k == 'enter':
            m = draw(st.sampled_from([None, None, 'r+', 'r']))
            acts.append(['enter'] if m is None else ['enter', m])
        else:
            acts.append([k])
    order = draw(st.permutations([0, 1, 2, 'x', 'y']))
    finish = [['exit'] if o in ('x', 'y') else [draw(st.sampled_from(['exhaust', 'close', 'drop'])), o] for o in order]
    return {'actions': acts, 'finish': finish, 'hmode': draw(st.sampled_from(['r+', 'r+', 'r'])), 'pset': draw(st.sampled_from([0, 1, 2, 3, 4]))}


def fixed_specs():
    """Hand-laid interleavings for the other parameter sets: generators with adjacent frames advanced in turn; writes just before
    and just behind the end of the frame a generator has returned, then the next advance."""
    nframes = {0: 1, 1: 2, 2: 2}        # parameter set 3
    for ga, gb in ((0, 1), (0, 2), (1, 2), (2, 1)):
        # generator ga hands out its LAST chunk and is then closed / dropped by its consumer while gb, which started earlier and
        # still has a frame to go, lives on and is advanced afterwards
        for how in ('close', 'drop'):
            acts = [['start', ga], ['start', gb], ['next', gb]] + [['next', ga]] * nframes[ga] + [[how, ga], ['next', gb], ['read', 77]]
            yield {'actions': acts, 'finish': [['exhaust', gb]], 'pset': 3}
            yield {'actions': [['enter']] + acts + [['exit']], 'finish': [['close', gb]], 'pset': 3}
            yield {'actions': acts[:-2] + [['write', 5, -3], ['next', gb]], 'finish': [['drop', gb]], 'pset': 3}
    # an element access during which the last other holder of the map goes away (closed / exhausted from inside __index__)
    for g, how, kind_ in itertools.product((0, 1), ('close', 'exhaust', 'drop'), ('readhook', 'writehook')):
        yield {'actions': [['start', g], ['next', g], [kind_, g, how], ['read', 9]], 'finish': [], 'pset': 3}
        yield {'actions': [['start', 0], ['start', 1], ['next', 0], ['next', 1], [kind_, g, how], ['next', 1 - g], ['read', 9]], 'finish': [['exhaust', 1 - g]], 'pset': 0}
    # a write that is refused (read-only handle, or a read-only block around a read-write handle) while generators are suspended
    for hmode, pre in (('r', []), ('r', [['enter']]), ('r+', [['enter', 'r']]), ('r', [['enter', 'r']])):
        for g in (0, 1):
            acts = pre + [['start', g], ['next', g], ['rowrite', 5, -3], ['next', g], ['read', 9], ['rowrite', 70000, 4], ['badread'], ['next', g]]
            yield {'actions': acts, 'finish': [['exhaust', g]], 'pset': 0, 'hmode': hmode}
            yield {'actions': pre + [['start', 0], ['start', 1], ['next', 0], ['next', 1], ['rowrite', 5, -3], ['next', 1 - g], ['close', g], ['rowrite', 6, 1], ['next', 1 - g]],
                   'finish': [['exhaust', 1 - g]], 'pset': 3, 'hmode': hmode}
    # a fine-grained generator advanced thousands of times while a coarse one is suspended mid-way, then the coarse one goes on
    for fine, nadv in ((1, 4200), (1, 9000), (2, 5000)):
        acts = [['start', 0], ['next', 0], ['start', fine], ['nextn', fine, nadv], ['next', 0], ['read', 5], ['nextn', fine, 100], ['next', 0]]
        yield {'actions': acts, 'finish': [['exhaust', 0], ['close', fine]], 'pset': 4}
        yield {'actions': [['enter']] + acts + [['exit'], ['next', 0]], 'finish': [['close', fine], ['exhaust', 0]], 'pset': 4}
    for pset in (1, 2):
        for order in ([0, 1, 0, 1, 2, 0, 1, 2, 2], [1, 1, 0, 2, 0, 1, 2, 0]):
            acts = [['start', 0], ['start', 1], ['start', 2]] + [['next', g] for g in order]
            yield {'actions': acts, 'finish': [['exhaust', 1], ['exhaust', 0], ['exhaust', 2]], 'pset': pset}
            for g in (0, 1, 2):
                for off in (-1, -50, -150, 0, 1, 100, 400, 600):
                    w = [['start', g], ['next', g], ['wnear', g, off, -5], ['next', g], ['wnear', g, off, -6], ['next', g], ['next', g]]
                    yield {'actions': w, 'finish': [['exhaust', g]], 'pset': pset}
                    yield {'actions': [['enter']] + w + [['exit']], 'finish': [['close', g]], 'pset': pset}


def task_fixed(ctx, col):
    enum_search(ctx, col, fixed_specs(), lambda s: execute(ctx, s))


def task_enum(ctx, col, shard, L):
    enum_search(ctx, col, (s for i, s in enumerate(enum_specs(L)) if i % NSHARDS == shard), lambda s: execute(ctx, s))
    # the same schedules, one action shorter, with generators of one / two frames (parameter set 3): here 'next' twice is the end
    short = (dict(s, pset=3) for s in enum_specs(L - 1) if s.get('hmode', 'r+') == 'r+')
    enum_search(ctx, col, (s for i, s in enumerate(short) if i % NSHARDS == shard), lambda s: execute(ctx, s))


def task_random(ctx, col, shard, n):
    hyp_search(ctx, col, st_schedule(), lambda s: execute(ctx, s), shard_seed(ctx, shard), n)


def tasks(ctx):
    global EXHAUSTIVE
    _scale(ctx)
    L = ctx.pick(5, 6)
    EXHAUSTIVE = f"every well-formed schedule of length <= {L} over 2 generators + 1 context containing at least one generator advance, x 2 finishing orders"
    t = [(task_fixed, {})]
    for sh in range(NSHARDS):
        t.append((task_enum, dict(shard=sh, L=L)))
        t.append((task_random, dict(shard=sh, n=ctx.pick(120, 4000))))
    return t
