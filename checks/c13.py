"""C13 - metadata behaves as a dictionary persisted to metadata.json.

Model-based: op sequences (setitem, update in 4 call forms, pop with/without
default, popitem, del, reopen, update with a non-serialisable value) are applied
to a.metadata and to a dict model pushed through an independent JSON normaliser;
after every step all read accessors on the live and a fresh handle must equal
the model, and metadata.json must exist iff the model is non-empty.
"""
import os, json, math, itertools
import numpy as np
from hypothesis import strategies as st
from vlib.runner import Outcome, hyp_search, enum_search, shard_seed, NSHARDS

PROPERTY = 'C13'
LEVEL = 'exploration'
RULE = ("case = {Array|RaggedArray} x start {no metadata, metadata={}, metadata given} + op list over a pool of 4 keys; values "
        "from a recursive JSON strategy (int incl. >2^63, float incl. NaN/inf/-0.0, str incl. non-ASCII/control/surrogates, "
        "bool, None, list, tuple, dict, NumPy ints/floats/arrays, valid UTF-8 bytes); bounded-exhaustive over a 9-op alphabet "
        "+ Hypothesis sequences; oracle = dict model through an independent JSON normaliser with type- and NaN-aware "
        "equality, on live and fresh handles; non-trivial = >=3 ops with at least one deletion; distinct = canonical spec")
ASSUMPTIONS = ["np.bool_ and np.datetime64 values are not generated (not 'numbers'); dict keys are str",
               "popitem may return any present item (documented as arbitrary)",
               "for invalid-UTF-8 bytes any exception satisfies 'raises'; for other non-serialisable values TypeError is required"]
EXHAUSTIVE = None
MUST_HIT = ['env:c-locale', 'returned-values-mutated-by-caller', 'start:none', 'start:empty', 'start:given', 'start:over-occupant-with-metadata', 'start:copy-over', 'start:empty-over', 'kind:Array', 'kind:Ragged', 'update-empty-on-empty', 'pop-default-on-empty',
            'last-key-removed', 'val:nparr', 'val:nonascii', 'val:npint', 'val:npfloat', 'val:bytes', 'val:nan', 'bad-update',
            'pop-missing-nodefault', 'del-missing', 'popitem-empty', 'reopen', 'update:kwargs', 'update:pairs', 'update:zip', 'update:generator']
KEYS = ['a', 'b', 'ключ', 'k 4']


# ------------------------------------------------------------------ value specs
def st_leaf():
    return st.one_of(
        st.builds(lambda v: {'t': 'int', 'v': v}, st.one_of(st.integers(-5, 5), st.integers(-2 ** 70, 2 ** 70))),
        st.builds(lambda v: {'t': 'float', 'v': v}, st.sampled_from(['nan', 'inf', '-inf', '-0.0', '0.1', '1e308', '5e-324', '-2.5', '3.0'])),
        st.builds(lambda v: {'t': 'float', 'v': repr(v)}, st.floats(allow_nan=False, allow_infinity=False)),
        st.builds(lambda v: {'t': 'str', 'v': v}, st.one_of(st.text(max_size=6), st.sampled_from(['é', '日本', '\x00\x1f', '\ud800', '"\\', 'a\nb']))),
        st.builds(lambda v: {'t': 'bool', 'v': v}, st.booleans()),
        st.just({'t': 'none'}),
        st.builds(lambda dt, v: {'t': 'npint', 'dt': dt, 'v': _clip(dt, v)},
                  st.sampled_from(['int8', 'uint8', 'int16', 'uint16', 'int32', 'uint32', 'int64', 'uint64', 'intp', 'longlong']),
                  st.one_of(st.integers(-100, 100), st.sampled_from([-2 ** 63, 2 ** 63 - 1, 2 ** 64 - 1, -2 ** 31, 2 ** 31, 255, -128, 65535]))),
        st.builds(lambda dt, v: {'t': 'npfloat', 'dt': dt, 'v': v}, st.sampled_from(['float16', 'float32', 'float64', 'longdouble', 'half', 'single']),
                  st.sampled_from(['0.1', '2.5', 'nan', 'inf', '-0.0', '1e-3', '65504.0', '-1e30'])),
        st.builds(lambda dt, v: {'t': 'nparr', 'dt': dt, 'v': v},
                  st.sampled_from(['int16', 'uint8', 'float32', 'float64', 'int64', 'float16', 'longdouble', 'uint64', 'int8', '>i4', '>f8']),
                  st.one_of(st.lists(st.integers(0, 50), max_size=4), st.lists(st.lists(st.integers(0, 50), min_size=2, max_size=2), max_size=3),
                            st.integers(0, 50))),      # an int spec = a 0-d array
        st.builds(lambda v: {'t': 'bytes', 'v': v.encode('utf-8').hex()}, st.text(max_size=5, alphabet=st.characters(exclude_categories=['Cs']))),
    )


def _clip(dt, v):
    ii = np.iinfo(np.dtype(dt))
    return max(ii.min, min(ii.max, v))


def st_value():
    return st.recursive(st_leaf(), lambda ch: st.one_of(
        st.builds(lambda v: {'t': 'list', 'v': v}, st.lists(ch, max_size=3)),
        st.builds(lambda v: {'t': 'tuple', 'v': v}, st.lists(ch, max_size=3)),
        st.builds(lambda v: {'t': 'dict', 'v': v}, st.lists(st.tuples(st.sampled_from(['x', 'y', 'ö']), ch).map(list), max_size=3,
                                                              unique_by=lambda kv: kv[0]))), max_leaves=6)


def build_value(vs):
    """value spec -> Python object handed to Darr."""
    t = vs['t']
    if t == 'int':
        return int(vs['v'])
    if t == 'float':
        return float(vs['v'])
    if t == 'str':
        return vs['v']
    if t == 'bool':
        return bool(vs['v'])
    if t == 'none':
        return None
    if t == 'list':
        return [build_value(x) for x in vs['v']]
    if t == 'tuple':
        return tuple(build_value(x) for x in vs['v'])
    if t == 'dict':
        return {k: build_value(x) for k, x in vs['v']}
    if t == 'npint':
        return np.dtype(vs['dt']).type(vs['v'])
    if t == 'npfloat':
        return np.dtype(vs['dt']).type(float(vs['v']))
    if t == 'nparr':
        return np.array(vs['v'], dtype=vs['dt'])
    if t == 'bytes':
        return bytes.fromhex(vs['v'])
    raise ValueError(t)


def model_value(vs):
    """value spec -> what a JSON round trip of that value is (independent normaliser)."""
    t = vs['t']
    if t in ('int', 'str', 'bool', 'none', 'float'):
        return build_value(vs)
    if t in ('list', 'tuple'):
        return [model_value(x) for x in vs['v']]
    if t == 'dict':
        return {k: model_value(x) for k, x in vs['v']}
    if t == 'npint':
        return int(vs['v'])
    if t == 'npfloat':
        # the stored number is the Python float nearest to the NumPy value
        return float(np.dtype(vs['dt']).type(float(vs['v'])))
    if t == 'nparr':
        def conv(x):
            if isinstance(x, list):
                return [conv(i) for i in x]
            return float(np.dtype(vs['dt']).type(x)) if np.dtype(vs['dt']).kind == 'f' else int(x)
        return conv(vs['v'])
    if t == 'bytes':
        return bytes.fromhex(vs['v']).decode('utf-8')
    raise ValueError(t)


def value_classes(vs, acc):
    t = vs['t']
    if t in ('nparr', 'npint', 'npfloat', 'bytes'):
        acc.add('val:' + t)
    if t == 'str' and any(ord(c) > 127 for c in vs['v']):
        acc.add('val:nonascii')
    if t in ('float', 'npfloat') and vs['v'] == 'nan':
        acc.add('val:nan')
    if t in ('list', 'tuple'):
        for x in vs['v']:
            value_classes(x, acc)
    if t == 'dict':
        for _, x in vs['v']:
            value_classes(x, acc)


def deep_eq(a, b):
    if type(a) is not type(b):
        return False
    if isinstance(a, float):
        return (math.isnan(a) and math.isnan(b)) or (a == b and math.copysign(1, a) == math.copysign(1, b))
    if isinstance(a, list):
        return len(a) == len(b) and all(deep_eq(x, y) for x, y in zip(a, b))
    if isinstance(a, dict):
        return set(a) == set(b) and all(deep_eq(a[k], b[k]) for k in a)
    return a == b


BAD = {'object': lambda: object(), 'set': lambda: {1, 2}, 'complex': lambda: 1 + 2j, 'func': lambda: (lambda x: x),
       'badbytes': lambda: b'\xff\xfe', 'nested-set': lambda: {'x': [1, {2}]}}


@st.composite
def st_op(draw):
    o = draw(st.sampled_from(['set', 'set', 'update', 'update', 'pop', 'pop', 'popitem', 'del', 'reopen', 'bad']))
    k = draw(st.sampled_from(KEYS))
    if o == 'set':
        return {'o': 'set', 'k': k, 'v': draw(st_value())}
    if o == 'update':
        form = draw(st.sampled_from(['dict', 'kwargs', 'pairs', 'empty', 'dict+kwargs', 'zip', 'generator', 'iter', 'overlap']))
        items = [] if form == 'empty' else [[kk, draw(st_value())] for kk in draw(st.lists(st.sampled_from(KEYS), max_size=3, unique=True))]
        return {'o': 'update', 'form': form, 'items': items}
    if o == 'pop':
        return {'o': 'pop', 'k': k, 'd': draw(st.sampled_from(['no', 'none', 'val']))}
    if o == 'popitem':
        return {'o': 'popitem'}
    if o == 'del':
        return {'o': 'del', 'k': k}
    if o == 'reopen':
        return {'o': 'reopen'}
    return {'o': 'bad', 'bad': draw(st.sampled_from(sorted(BAD))), 'items': [[kk, draw(st_value())] for kk in draw(st.lists(st.sampled_from(KEYS), max_size=2, unique=True))],
            'k': k, 'via': draw(st.sampled_from(['update', 'setitem']))}


@st.composite
def st_case(draw, max_ops=20):
    start = draw(st.sampled_from(['none', 'empty', 'given', 'none-over', 'empty-over', 'given-over', 'copy-over']))
    spec = {'kind': draw(st.sampled_from(['Array', 'Ragged'])), 'start': start,
            'ops': [draw(st_op()) for _ in range(draw(st.integers(1, max_ops)))]}
    if start.startswith('given'):
        spec['given'] = [[k, draw(st_value())] for k in draw(st.lists(st.sampled_from(KEYS), min_size=1, max_size=3, unique=True))]
    return spec


# ------------------------------------------------------------------ execution
def _open(kind, path, mode='r+'):
    import darr
    return darr.Array(path, accessmode=mode) if kind == 'Array' else darr.RaggedArray(path, accessmode=mode)


def check_accessors(out, md, model, tag, mfile):
    """Every read accessor vs the model."""
    try:
        d = dict(md)
        if not deep_eq(d, model):
            out.viol('accessor-mismatch', f'dict():{tag}', f'dict(md)={d!r:.300} model={model!r:.300}')
            return False
        if len(md) != len(model):
            out.viol('accessor-mismatch', f'len:{tag}', f'{len(md)} vs {len(model)}')
            return False
        if sorted(md.keys()) != sorted(model.keys()):
            out.viol('accessor-mismatch', f'keys:{tag}', f'{sorted(md.keys())} vs {sorted(model)}')
            return False
        if not deep_eq(dict(md.items()), model):
            out.viol('accessor-mismatch', f'items:{tag}', '')
            return False
        vals = list(md.values())
        if len(vals) != len(model) or not all(any(deep_eq(v, w) for w in model.values()) for v in vals):
            out.viol('accessor-mismatch', f'values:{tag}', f'{vals!r:.200}')
            return False
        for k in KEYS + ['missing']:
            if (k in md) != (k in model):
                out.viol('accessor-mismatch', f'in:{tag}', f'{k!r} in md = {k in md}')
                return False
            g = md.get(k)
            g2 = md.get(k, 'dflt')
            if k in model:
                if not (deep_eq(g, model[k]) and deep_eq(g2, model[k]) and deep_eq(md[k], model[k])):
                    out.viol('accessor-mismatch', f'get/[]:{tag}', f'key {k!r}: {g!r:.100} vs {model[k]!r:.100}')
                    return False
            else:
                if g is not None or g2 != 'dflt':
                    out.viol('accessor-mismatch', f'get-missing:{tag}', f'key {k!r}: get -> {g!r}, {g2!r}')
                    return False
                try:
                    md[k]
                    out.viol('no-raise', f'getitem-missing:{tag}', f'md[{k!r}] did not raise')
                    return False
                except KeyError:
                    pass
        # what the accessors hand out belongs to the caller: changing it in place must not change what is read next
        touched = False
        for obj in [d] + list(d.values()) + vals + [md.get(k) for k in model] + [md[k] for k in model] + [v for _, v in md.items()]:
            if isinstance(obj, list):
                obj.append('changed by the caller')
                touched = True
            elif isinstance(obj, dict):
                obj['changed by the caller'] = 1
                touched = True
        if touched:
            out.cls('returned-values-mutated-by-caller')
            d2 = dict(md)
            if not deep_eq(d2, model):
                out.viol('accessor-mismatch', f'aliased:{tag}', f'after changing returned values in place dict(md)={d2!r:.300} model={model!r:.300}')
                return False
    except Exception as e:
        out.viol('accessor-raised', f'{tag}:{type(e).__name__}', f'{type(e).__name__}: {e}')
        return False
    if os.path.exists(mfile) != bool(model):
        out.viol('file-existence', tag, f'metadata.json exists={os.path.exists(mfile)} but model has {len(model)} keys')
        return False
    return True


def execute(ctx, spec):
    if spec.get('env'):          # a case recorded from a child interpreter under another environment (replay path)
        from vlib import envrun
        return envrun.execute_in_env(ctx, 'checks.c13', spec)
    import darr
    out = Outcome()
    kind = spec['kind']
    out.cls('kind:' + kind, 'start:' + spec['start'])
    with ctx.scratch() as d:
        path = os.path.join(d, 'x.darr')
        mfile = os.path.join(path, 'metadata.json')
        model = {}
        vcl = set()
        st0 = spec['start']
        over = st0.endswith('-over')
        if over:
            # the path is occupied by another array that has metadata; the array under test is created over it (overwrite=True)
            out.cls('start:over-occupant-with-metadata')
            occ = {'old': 1, 'a': 'stale', 'ключ': [1, 2]}
            if (len(spec['ops']) + len(kind)) % 2:
                darr.asarray(path, np.arange(5, dtype='float32'), metadata=occ)
            else:
                darr.asraggedarray(path, [[1.5], [2.5, 3.5]], metadata=occ)
        if st0.startswith('given'):
            mdarg = {k: build_value(v) for k, v in spec['given']}
            model = {k: model_value(v) for k, v in spec['given']}
            for _, v in spec['given']:
                value_classes(v, vcl)
        else:
            mdarg = {} if st0.startswith('empty') else None
        kw = {'overwrite': True} if over else {}
        try:
            if st0 == 'copy-over':
                # copy() of a source without metadata onto the occupied path
                srcp = os.path.join(d, 'src.darr')
                src = darr.asarray(srcp, np.arange(3, dtype='int16')) if kind == 'Array' else darr.asraggedarray(srcp, [[1, 2], [3]], dtype='int16')
                a = src.copy(path, accessmode='r+', overwrite=True)
            elif kind == 'Array':
                a = darr.asarray(path, np.arange(3, dtype='int16'), metadata=mdarg, accessmode='r+', **kw)
            else:
                a = darr.asraggedarray(path, [[1, 2], [3]], dtype='int16', metadata=mdarg, accessmode='r+', **kw)
        except Exception as e:
            out.viol('create-raised', f'create:{kind}:{spec["start"]}:{type(e).__name__}', f'{type(e).__name__}: {e}')
            return out
        if not check_accessors(out, a.metadata, model, f'create:{kind}:{spec["start"]}', mfile):
            return out
        ndel = 0
        for i, op in enumerate(spec['ops']):
            o = op['o']
            md = a.metadata
            tag = o
            try:
                if o == 'set':
                    value_classes(op['v'], vcl)
                    md[op['k']] = build_value(op['v'])
                    model[op['k']] = model_value(op['v'])
                elif o == 'update':
                    form = op['form']
                    out.cls('update:' + form)
                    items = [(k, build_value(v)) for k, v in op['items']]
                    for _, v in op['items']:
                        value_classes(v, vcl)
                    if not model and not items:
                        out.cls('update-empty-on-empty')
                    tag = 'update:' + form
                    if form == 'dict':
                        md.update(dict(items))
                    elif form == 'kwargs':
                        kw = {k: v for k, v in items if k.isidentifier()}
                        md.update(**kw)
                        items = list(kw.items())
                        op = dict(op, items=[[k, v] for k, v in op['items'] if k.isidentifier()])
                    elif form == 'pairs':
                        md.update(items)
                    elif form == 'zip':          # one-shot iterables of pairs: they can be walked only once
                        md.update(zip([k for k, _ in items], [v for _, v in items]))
                    elif form == 'generator':
                        md.update((k, v) for k, v in items)
                    elif form == 'iter':
                        md.update(iter(items))
                    elif form == 'empty':
                        md.update({})
                    elif form == 'overlap':
                        # a mapping AND keywords that name the same keys with other values: like dict.update, the keywords win
                        kw = {k: v for k, v in items if k.isidentifier()}
                        pos = {k: ('shadowed', i) if k in kw else v for i, (k, v) in enumerate(items)}
                        md.update(pos if op.get('seed', 0) % 2 == 0 else list(pos.items()), **kw)
                    else:
                        half = len(items) // 2
                        kw = {k: v for k, v in items[half:] if k.isidentifier()}
                        md.update(dict(items[:half]), **kw)
                        op = dict(op, items=[kv for kv in op['items'][:half]] + [kv for kv in op['items'][half:] if kv[0].isidentifier()])
                    for k, v in op['items']:
                        model[k] = model_value(v)
                elif o == 'pop':
                    k = op['k']
                    if op['d'] == 'no':
                        if k in model:
                            got = md.pop(k)
                            want = model.pop(k)
                            ndel += 1
                            if not deep_eq(got, want):
                                out.viol('pop-wrong-value', 'pop', f'{got!r:.100} vs {want!r:.100}')
                                break
                        else:
                            out.cls('pop-missing-nodefault')
                            try:
                                md.pop(k)
                                out.viol('no-raise', 'pop-missing-nodefault', f'pop({k!r}) on {sorted(model)} did not raise')
                                break
                            except KeyError:
                                pass
                            except Exception as e:
                                out.viol('wrong-exception', f'pop-missing-nodefault:{type(e).__name__}', f'{type(e).__name__}: {e}')
                                break
                    else:
                        dflt = None if op['d'] == 'none' else ['d', 1]
                        if not model:
                            out.cls('pop-default-on-empty')
                        tag = 'pop-default:' + ('present' if k in model else ('missing-empty' if not model else 'missing'))
                        got = md.pop(k, dflt)
                        want = model.pop(k, dflt)
                        if k in model or got is not dflt:
                            ndel += 1
                        if not deep_eq(got, want):
                            out.viol('pop-wrong-value', tag, f'{got!r:.100} vs {want!r:.100}')
                            break
                elif o == 'popitem':
                    if model:
                        k, v = md.popitem()
                        ndel += 1
                        if k not in model or not deep_eq(v, model[k]):
                            out.viol('pop-wrong-value', 'popitem', f'({k!r}, {v!r:.100}) not an item of the model')
                            break
                        del model[k]
                    else:
                        out.cls('popitem-empty')
                        try:
                            md.popitem()
                            out.viol('no-raise', 'popitem-empty', 'popitem on empty metadata did not raise')
                            break
                        except KeyError:
                            pass
                        except Exception as e:
                            out.viol('wrong-exception', f'popitem-empty:{type(e).__name__}', f'{type(e).__name__}: {e}')
                            break
                elif o == 'del':
                    k = op['k']
                    if k in model:
                        del md[k]
                        del model[k]
                        ndel += 1
                    else:
                        out.cls('del-missing')
                        try:
                            del md[k]
                            out.viol('no-raise', 'del-missing', f'del md[{k!r}] did not raise')
                            break
                        except KeyError:
                            pass
                        except Exception as e:
                            out.viol('wrong-exception', f'del-missing:{type(e).__name__}', f'{type(e).__name__}: {e}')
                            break
                elif o == 'reopen':
                    out.cls('reopen')
                    a = _open(kind, path)
                elif o == 'bad':
                    out.cls('bad-update')
                    before = open(mfile, 'rb').read() if os.path.exists(mfile) else None
                    items = {k: build_value(v) for k, v in op['items']}
                    badv = BAD[op['bad']]()
                    tag = f"bad:{op['bad']}:{op['via']}"
                    try:
                        if op['via'] == 'setitem':
                            md[op['k']] = badv
                        else:
                            items[op['k'] + '_bad'] = badv
                            md.update(items)
                        out.viol('no-raise', tag, 'update with a non-serialisable value did not raise')
                        break
                    except TypeError:
                        pass
                    except Exception as e:
                        if op['bad'] != 'badbytes':
                            out.viol('wrong-exception', f'{tag}:{type(e).__name__}', f'{type(e).__name__}: {e}')
                            break
                    after = open(mfile, 'rb').read() if os.path.exists(mfile) else None
                    if before != after:
                        out.viol('failed-update-changed-file', tag, f'{before!r:.80} -> {after!r:.80}')
                        break
            except Exception as e:
                out.viol('valid-call-raised', f'{tag}:{type(e).__name__}', f'op {i} {op["o"]}: {type(e).__name__}: {e}')
                break
            if ndel and not model:
                out.cls('last-key-removed')
            if not check_accessors(out, a.metadata, model, tag + ':live', mfile):
                break
            try:
                fresh = _open(kind, path, 'r')
            except Exception as e:
                out.viol('fresh-open-raised', tag, f'{type(e).__name__}: {e}')
                break
            if not check_accessors(out, fresh.metadata, model, tag + ':fresh', mfile):
                break
        for c in vcl:
            out.cls(c)
        out.nontrivial = len(spec['ops']) >= 3 and ndel >= 1
    return out


# ------------------------------------------------------------------ tasks
V1 = {'t': 'int', 'v': 1}
ALPHABET = [
    {'o': 'set', 'k': 'a', 'v': V1},
    {'o': 'set', 'k': 'b', 'v': {'t': 'nparr', 'dt': 'float32', 'v': [0, 1, 2]}},
    {'o': 'update', 'form': 'empty', 'items': []},
    {'o': 'update', 'form': 'kwargs', 'items': [['a', {'t': 'str', 'v': 'é'}], ['b', {'t': 'list', 'v': [V1, {'t': 'none'}]}]]},
    {'o': 'pop', 'k': 'a', 'd': 'no'},
    {'o': 'pop', 'k': 'a', 'd': 'none'},
    {'o': 'popitem'},
    {'o': 'del', 'k': 'b'},
    {'o': 'reopen'},
]
ESTARTS = [{'kind': 'Array', 'start': 'none'}, {'kind': 'Ragged', 'start': 'given', 'given': [['b', {'t': 'float', 'v': 'nan'}]]},
           {'kind': 'Ragged', 'start': 'empty'}]


def enum_specs(L):
    for s in ESTARTS:
        for n in range(1, L + 1):
            for ops in itertools.product(range(len(ALPHABET)), repeat=n):
                yield dict(s, ops=[ALPHABET[i] for i in ops])


def task_enum(ctx, col, shard, L):
    enum_search(ctx, col, (s for i, s in enumerate(enum_specs(L)) if i % NSHARDS == shard), lambda s: execute(ctx, s))


def task_random(ctx, col, shard, n, max_ops):
    hyp_search(ctx, col, st_case(max_ops), lambda s: execute(ctx, s), shard_seed(ctx, shard), n)


def task_locale(ctx, col, n):
    """A sample of the same cases in a child interpreter whose default text encoding is ASCII (LC_ALL=C, UTF-8 mode off):
    non-ASCII keys and values must round-trip there too."""
    from vlib import envrun
    from vlib.runner import hyp_collect
    fixed = [{'kind': k, 'start': 'given', 'given': [['ключ', {'t': 'str', 'v': 'é日本€'}], ['a', {'t': 'list', 'v': [{'t': 'str', 'v': 'ü'}]}]],
              'ops': [{'o': 'set', 'k': 'b', 'v': {'t': 'str', 'v': 'grüß'}}, {'o': 'reopen'}, {'o': 'pop', 'k': 'a', 'd': 'no'},
                      {'o': 'update', 'form': 'dict', 'items': [['k 4', {'t': 'dict', 'v': [['ö', {'t': 'str', 'v': '日'}]]}]]}, {'o': 'popitem'}]}
             for k in ('Array', 'Ragged')]
    envrun.run_specs(ctx, col, 'checks.c13', fixed + hyp_collect(st_case(12), shard_seed(ctx, 78), n), 'c-locale')


def equal_values_specs():
    """A key is overwritten with a value that compares equal to the stored one but is not the same JSON value (1 / true / 1.0,
    0.0 / -0.0, [1, 2] / [1.0, 2.0], {'on': 1} / {'on': true}, 0 / false / '' / null), through every form of update, alone and
    next to an unchanged key: what is stored afterwards is the new value."""
    I = lambda v: {'t': 'int', 'v': v}
    F = lambda v: {'t': 'float', 'v': v}
    B = lambda v: {'t': 'bool', 'v': v}
    L_ = lambda *v: {'t': 'list', 'v': list(v)}
    D = lambda *kv: {'t': 'dict', 'v': [list(x) for x in kv]}
    pairs = [(I(1), B(True)), (B(True), I(1)), (I(1), F('1.0')), (F('1.0'), I(1)), (F('0.0'), F('-0.0')), (F('-0.0'), F('0.0')), (I(0), B(False)), (B(False), F('0.0')),
             (L_(I(1), I(2)), L_(F('1.0'), F('2.0'))), (L_(B(True)), L_(I(1))), (D(('on', I(1))), D(('on', B(True)))), (D(('x', L_(I(0)))), D(('x', L_(B(False))))),
             (L_(I(1), I(2)), {'t': 'tuple', 'v': [I(1), I(2)]}), (I(2 ** 53), F('9007199254740992.0'))]
    for kind in ('Array', 'Ragged'):
        for old, new in pairs:
            for form in ('set', 'dict', 'kwargs', 'pairs'):
                for other in (False, True):
                    given = [['k', old]] + ([['z', I(5)]] if other else [])
                    items = [['k', new]] + ([['z', I(5)]] if other and form != 'set' else [])
                    op = {'o': 'set', 'k': 'k', 'v': new} if form == 'set' else {'o': 'update', 'form': form, 'items': items}
                    yield {'kind': kind, 'start': 'given', 'given': given, 'ops': [op, {'o': 'reopen'}, op]}
                    yield {'kind': kind, 'start': 'none', 'ops': [{'o': 'set', 'k': 'k', 'v': old}, op]}
        for seed in (0, 1):
            op = {'o': 'update', 'form': 'overlap', 'items': [['k', I(2)], ['z', L_(I(1))], ['not an identifier', B(True)]], 'seed': seed}
            yield {'kind': kind, 'start': 'none', 'ops': [op, {'o': 'reopen'}, op]}
            yield {'kind': kind, 'start': 'given', 'given': [['k', I(1)], ['z', I(5)]], 'ops': [op]}


def task_equalvalues(ctx, col):
    enum_search(ctx, col, equal_values_specs(), lambda s: execute(ctx, s))


def tasks(ctx):
    global EXHAUSTIVE
    L = ctx.pick(3, 4)
    EXHAUSTIVE = f"all op sequences of length <= {L} over the 9-op alphabet from 3 start configurations"
    t = [(task_locale, dict(n=ctx.pick(80, 1000))), (task_equalvalues, {})]
    for sh in range(NSHARDS):
        t.append((task_enum, dict(shard=sh, L=L)))
        t.append((task_random, dict(shard=sh, n=ctx.pick(150, 2000), max_ops=ctx.pick(20, 50))))
    return t
