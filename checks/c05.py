"""C05 - the RaggedArray directory stays structurally well-formed and self-describing.

The histories of C04 (plus copy and overwrite=True re-creation) are replayed and
after every completed step vlib/rawdec.decode_ragged - no Darr code - must find
two well-formed arrays (values (N,)+atom, indices (n,2) integer), contiguous
index rows starting at 0 and ending at N, a consistent top-level descriptor, and
subarrays values[start_k:end_k] equal to the list model.
"""
import itertools
from vlib.runner import Outcome, hyp_search, enum_search, shard_seed, NSHARDS
from vlib import rhist
from checks import c04

PROPERTY = 'C05'
LEVEL = 'exploration'
RULE = ("histories as in C04 extended with copy() and overwrite=True re-creation; after every completed step an independent "
        "decoder checks: values/ and indices/ well-formed (C02 sense), indices shape (n,2) integer, indices[0,0]=0, "
        "start<=end, start_k=end_{k-1}, last end = N, top-level JSON len/size/atom/numtype/darrobject consistent, and "
        "values[start_k:end_k] equal to the model; non-trivial as C04; distinct = canonical spec")
ASSUMPTIONS = c04.ASSUMPTIONS + ["decoder implements the documented format only (README text of the ragged array)"]
EXHAUSTIVE = None
MUST_HIT = ['append-beyond-index-type', 'overfill-raised', 'ops-inside-open-context', 'n=0-after-having-subarrays', 'trailing-zero-length', 'overwrite-recreate', 'copy', 'how:create', 'how:as']


def execute(ctx, spec):
    out, run = rhist.run_ragged_history(ctx, spec, ('raw',))
    out.nontrivial = c04.nontrivial(out, run, spec)
    return out


def task_enum(ctx, col, shard, L):
    specs = (s for i, s in enumerate(c04.enum_specs(L)) if i % NSHARDS == shard)
    enum_search(ctx, col, specs, lambda s: execute(ctx, s))


def task_random(ctx, col, shard, n, max_ops):
    strat = rhist.st_ragged_history(max_ops=max_ops, extra=('copy', 'overwrite'))
    hyp_search(ctx, col, strat, lambda s: execute(ctx, s), shard_seed(ctx, shard) + 7, n)
    hyp_search(ctx, col, rhist.st_growth_history(max_ops=max_ops + 4), lambda s: execute(ctx, s), shard_seed(ctx, shard) + 13, max(10, n // 3))


def task_fixed(ctx, col):
    # C04's fixed histories (index types filled exactly / beyond their range, thousands of subarrays) decoded from the raw files
    enum_search(ctx, col, itertools.chain(c04.long_specs(), c04.fixed_specs()), lambda s: execute(ctx, s))


def tasks(ctx):
    global EXHAUSTIVE
    L = ctx.pick(3, 4)
    EXHAUSTIVE = f"all op sequences of length <= {L} over C04's 8-op alphabet from 3 start states"
    t = [(task_fixed, {})]
    for sh in range(NSHARDS):
        t.append((task_enum, dict(shard=sh, L=L)))
        t.append((task_random, dict(shard=sh, n=ctx.pick(100, 1300), max_ops=ctx.pick(8, 25))))
    return t
