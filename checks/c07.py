"""C07 - generated read code for RaggedArrays extracts every subarray correctly.

Structure space: 9 languages x 13 value types x 7 index types x atom rank 0-3 x
subarray-length profiles (incl. zero-length subarrays) x byte order x path mode.
Each generated program is executed (numpymemmap, darr) or run in the reference
interpreters of vlib/lang; its accessor is evaluated for EVERY valid k in the
language's index origin and must return exactly subarray k (axes reversed for
column-major languages; empty results with the atom's dimensions where the
language gives any).  Also checked: the example statement (ordinal word, k value,
bound variable), the offer rule from docs/readcode.rst, paths, read-only modes,
and that running the code changes no file - also for ragged arrays without values.
"""
import os, re, itertools
import numpy as np
from hypothesis import strategies as st
from vlib.runner import Outcome, hyp_search, enum_search, shard_seed, NSHARDS, HarnessError
from vlib import gens
from vlib.gens import NUMTYPES
from vlib.snap import snapshot, diff
from vlib.lang import dialects
from vlib.lang.core import IllFormed, NotUnderstood, Indeterminate, Modifies, Closure
from vlib.rhist import INDEXTYPES
from checks.c06 import doc_tables, check_foreign_result, squeeze, layout, run_python_family, exact_equal, NAMES

PROPERTY = 'C07'
LEVEL = 'exploration'
RULE = ("program = RaggedArray.readcode(language, abspath, basepath) for (language x value type x index type x atom in {(), (2,), (3,2), "
        "(2,1,3)} x length profile in {[3], [2,0], [0,2], [1,2,3], [0,0,4], [2,0,3,0,1,4,2]} x value byte order x path mode); thorough: "
        "the complete product, quick: a seeded covering sample + Hypothesis-generated profiles; for each program the accessor is "
        "evaluated for every k; oracle = list-of-arrays model (distinct values), example-statement consistency, offer rule, paths, "
        "read-only modes, unchanged snapshot; non-trivial = >= 2 subarrays or a zero-length subarray or atom rank >= 1; distinct = "
        "canonical spec")
ASSUMPTIONS = ["reference interpreters as in C06 (documented semantics, no real foreign runtime offline)",
               "R/IDL results of NULL / !NULL for an empty subarray are accepted as dimensionless empties",
               "Scilab: complex values with atom rank >= 1 and a total first-axis length of 1 are indeterminate (squeeze orientation) and skipped",
               "Maple is taken to accept the empty statement after the proc header"]
EXHAUSTIVE = None
LANGS = ['darr', 'idl', 'julia', 'maple', 'mathematica', 'matlab', 'numpymemmap', 'R', 'scilab']
ATOMS = [(), (2,), (3, 2), (2, 1, 3)]
PROFILES = [[3], [2, 0], [0, 2], [1, 2, 3], [0, 0, 4], [2, 0, 3, 0, 1, 4, 2]]
ORIGIN = {'darr': 0, 'numpymemmap': 0, 'idl': 0, 'julia': 1, 'maple': 1, 'mathematica': 1, 'matlab': 1, 'R': 1, 'scilab': 1}
TABLELANG = {'julia': 'julia_ver1'}
MUST_HIT = ['call:positional-arguments', 'path:via-symlink-dotdot', 'churn:ask-append-empties-ask', 'churn:ask-trunc-empties-ask', 'churn:ask-during-iterappend', 'after-history-on-live-handle', 'handle-opened-by-relative-path'] + ['lang:' + l for l in LANGS] + [f'atomrank:{i}' for i in range(4)] + ['zero-length-subarray', 'withheld', 'offered', 'no-values',
                                                                                 'path:rel', 'path:base', 'path:abs', 'len:1', 'len:2', 'len>=3'] + \
           ['indextype:' + t for t in INDEXTYPES]
ORD = {'first': 1, 'second': 2, 'third': 3}


def offered_by_docs(lang, vt, it):
    if lang in ('darr', 'numpymemmap'):
        return True
    types, _ = doc_tables()
    tl = TABLELANG.get(lang, lang)
    ok_v = types[vt][tl]
    ok_i = types[it][tl] or (lang == 'R' and it == 'int64')      # documented allowance for int64 index arrays in R
    return ok_v and ok_i


def make_ragged(spec, path):
    import darr
    dt = gens.mkdtype(spec['vt'], spec['bo'])
    atom = tuple(spec['atom'])
    total = sum(spec['lens'])
    pool = gens.build_array(dt, (max(total, 1),) + atom, {'m': 'dist', 's': spec.get('seed', 1)})
    items, pos = [], 0
    for ln in spec['lens']:
        items.append(np.ascontiguousarray(pool[pos:pos + ln]))
        pos += ln
    churn = spec.get('churn')
    if items and churn in ('ask-append-empties-ask', 'ask-trunc-empties-ask'):
        # between two requests for code only zero-length subarrays come or go (the values array does not change at all)
        k = len(items)
        while k > 1 and len(items[k - 1]) == 0:
            k -= 1
        empt = np.zeros((0,) + atom, dt)
        if churn == 'ask-append-empties-ask':
            ra = darr.asraggedarray(path, items[:k], dtype=dt, indextype=spec['it'], accessmode='r+')
            ra.readcode(spec['lang'])
            ra.readcodelanguages
            if items[k:]:
                ra.iterappend(items[k:])
            else:       # no trailing empty subarrays in this profile: two come and one goes... and the other one goes
                ra.append(empt)
                ra.append(empt)
                ra.readcode(spec['lang'])
                darr.truncate_raggedarray(ra, len(items) + 1)
                darr.truncate_raggedarray(ra, len(items))
        else:
            ra = darr.asraggedarray(path, items + [empt, empt], dtype=dt, indextype=spec['it'], accessmode='r+')
            ra.readcode(spec['lang'])
            darr.truncate_raggedarray(ra, len(items))
    elif items and churn == 'ask-during-iterappend':
        # the generator that feeds iterappend asks the same handle for code (and for the offered languages) between two of its items
        ra = darr.asraggedarray(path, items[:1], dtype=dt, indextype=spec['it'], accessmode='r+')

        def feed():
            for j, x in enumerate(items[1:]):
                if j == 0 or j == len(items) - 2:
                    ra.readcodelanguages
                    ra.readcode(spec['lang'])
                yield x
            ra.readcode(spec['lang'])
        ra.readcode(spec['lang'])
        ra.iterappend(feed())
    elif items and churn == 'r-ask-r+-append-r-ask' and len(items) >= 2:
        # a READ-ONLY handle is asked for code, switched to r+, the array grows through it, it is switched back to 'r' and asked again
        darr.asraggedarray(path, items[:1], dtype=dt, indextype=spec['it'])
        ra = darr.RaggedArray(path)           # accessmode 'r'
        ra.readcode(spec['lang'])
        ra.readcodelanguages
        ra.accessmode = 'r+'
        ra.iterappend(items[1:])
        ra.accessmode = 'r'
    elif items and churn == 'trunc-last':
        # the last thing that happened to the handle is a truncation (after it had been asked for code at the larger length)
        extra = [np.ascontiguousarray(pool[:1]), np.ascontiguousarray(pool[:min(len(pool), 2)])]
        ra = darr.asraggedarray(path, items + extra, dtype=dt, indextype=spec['it'], accessmode='r+')
        ra.readcode(spec['lang'])
        ra.readcodelanguages
        darr.truncate_raggedarray(ra, len(items))
    elif items and churn:
        # reach the same final state through a history on ONE live handle: grow, call readcode, shrink, grow differently
        ra = darr.asraggedarray(path, items[:1], dtype=dt, indextype=spec['it'], accessmode='r+')
        filler = [np.ascontiguousarray(pool[:min(len(pool), 1 + j % 2)]) for j in range(len(items) - 1)]
        for f in filler:
            ra.append(f)
        for lang in ('numpymemmap', 'matlab', 'R'):
            ra.readcode(lang)
        if len(ra) > 1:
            darr.truncate_raggedarray(ra, 1)
        ra.iterappend(items[1:])
    elif items:
        ra = darr.asraggedarray(path, items, dtype=dt, indextype=spec['it'], accessmode='r')
    else:
        ra = darr.create_raggedarray(path, atom=atom, dtype=dt, indextype=spec['it'], accessmode='r')
    return ra, items


def check_sub(out, it, v, want, tag, what):
    """Compare an accessor result with subarray `want` (shape (n_k,)+atom)."""
    if want.shape[0] == 0:
        if v is None:
            return True          # NULL / !NULL: an empty value without dimensions
        if isinstance(v, np.ndarray) and v.size == 0:
            want_dims = want.shape[::-1] if (it is not None and it.colmajor) else want.shape
            sq = it is not None and it.squeeze_compare
            gd = squeeze(v.shape) if sq else tuple(v.shape)
            wd = squeeze(want_dims) if sq else tuple(want_dims)
            if v.ndim > 1 and gd != wd:
                out.viol('empty-subarray-wrong-dimensions', tag, f'{what}: empty value with dims {tuple(v.shape)}, atom requires {tuple(want_dims)}')
                return False
            return True
        out.viol('empty-subarray-not-empty', tag, f'{what}: zero-length subarray came back as {v!r:.80}')
        return False
    if it is None:       # python family: exact ndarray comparison
        if not isinstance(v, np.ndarray) or v.shape != want.shape or np.dtype(v.dtype).str != want.dtype.str or v.tobytes() != want.tobytes():
            out.viol('wrong-subarray', tag, f'{what}: got {getattr(v, "shape", None)}, expected {want.shape}')
            return False
        return True
    before = len(out.violations)
    check_foreign_result(out, it, v, want, tag, what)
    if len(out.violations) > before:
        vv = out.violations[-1]
        vv['kind'] = {'wrong-values': 'wrong-subarray', 'wrong-dimensions': 'wrong-subarray-dimensions'}.get(vv['kind'], vv['kind'])
        return False
    return True


def check_example(out, it, v, items, pos, tag):
    """The example statement must bind an existing subarray: the one its comment names, or - if the comment could not be located - any."""
    if pos is not None:
        return check_sub(out, it, v, items[pos - 1], tag, 'example sa')
    for w in items:
        probe = Outcome()
        if check_sub(probe, it, v, w, tag, 'example sa'):
            return True
    out.viol('wrong-subarray', tag, 'the example statement binds a value that is none of the subarrays')
    return False


def _execute(ctx, spec):
    import darr
    out = Outcome()
    lang, vt, itp, atom, lens, pm = spec['lang'], spec['vt'], spec['it'], tuple(spec['atom']), spec['lens'], spec.get('pm', 'rel')
    n = len(lens)
    out.cls('lang:' + lang, f'atomrank:{len(atom)}', 'indextype:' + itp, 'path:' + pm, 'len:1' if n == 1 else 'len:2' if n == 2 else 'len>=3' if n >= 3 else 'len:0')
    if 0 in lens:
        out.cls('zero-length-subarray')
    novalues = sum(lens) == 0
    if novalues:
        out.cls('no-values')
    if spec.get('churn') and n:
        out.cls('after-history-on-live-handle')
        if isinstance(spec['churn'], str):
            out.cls('churn:' + spec['churn'])
    out.nontrivial = n >= 2 or 0 in lens or len(atom) >= 1
    if spec.get('large'):
        out.cls('large-array:>' + spec['large'])
    ks = list(range(n)) if n <= 64 else sorted(set(list(range(8)) + list(range(n - 8, n)) + [n // 2, n // 3, (2 * n) // 3 + 1]))
    with ctx.scratch() as d:
        names = None if (spec.get('via') or spec.get('relopen')) else spec.get('names')
        root, apath, other = layout(d, names)
        ra, items = make_ragged(spec, apath)
        basepath = '/'.join(NAMES[names])
        bparg = basepath
        if names:
            out.cls('path:unusual-directory-names')
        bp = None if (spec.get('via') or spec.get('relopen')) else spec.get('bp')
        if bp and pm == 'base':
            # the base path is the directory of the ragged array itself, written as '' / '.' / './' / Path('') / Path('.')
            out.cls('basepath:current-directory:' + bp)
            import pathlib as _pl
            basepath = '.'
            bparg = {'empty': '', 'dot': '.', 'dotslash': './', 'emptypath': _pl.Path(''), 'dotpath': _pl.Path('.')}[bp]
        if spec.get('relopen'):
            # the handle is opened through a RELATIVE path; the generated code must not depend on the working directory it was generated in
            out.cls('handle-opened-by-relative-path')
            old = os.getcwd()
            os.chdir(root)
            try:
                import pathlib
                rr = darr.RaggedArray('data/x.darr' if spec.get('seed', 1) % 2 else pathlib.Path('data') / 'x.darr')
                code = rr.readcode(lang, abspath=(pm == 'abs'), basepath=(basepath if pm == 'base' else None))
                rr = None
            finally:
                os.chdir(old)
        else:
            if spec.get('via') == 'symlink-dotdot':
                # the same ragged array, reached through <other>/deep/sl/../x.darr where sl is a symlink into the array's parent:
                # collapsing '..' lexically would name <other>/deep/x.darr (a decoy ragged array) instead
                out.cls('path:via-symlink-dotdot')
                os.makedirs(os.path.join(other, 'deep'))
                os.makedirs(os.path.join(root, 'data', 'sub'))
                os.symlink(os.path.join(root, 'data', 'sub'), os.path.join(other, 'deep', 'sl'))
                darr.asraggedarray(os.path.join(other, 'deep', 'x.darr'), [[9, 9, 9]], dtype='int8')
                ra = darr.RaggedArray(os.path.join(other, 'deep', 'sl', '..', 'x.darr'))
            if spec.get('both') and pm == 'abs':
                # absolute paths requested AND a base path given: 'abspath: should the paths be absolute or not' - they are
                out.cls('call:abspath-and-basepath')
                code = ra.readcode(lang, abspath=True, basepath=bparg)
            elif spec.get('seed', 1) % 4 == 3 or spec.get('positional'):
                out.cls('call:positional-arguments')
                code = ra.readcode(lang, pm == 'abs', bparg if pm == 'base' else None)
            else:
                code = ra.readcode(lang, abspath=(pm == 'abs'), basepath=(bparg if pm == 'base' else None))
        want_offer = offered_by_docs(lang, vt, itp)
        if (code is not None) != want_offer:
            out.viol('offer-rule-mismatch', f'{lang}:{vt}:{itp}', f'code is {"offered" if code is not None else "withheld"} for values {vt} / indices {itp}; '
                     f'documentation says {"supported" if want_offer else "unsupported"}')
            return out
        langs = ra.readcodelanguages
        if (lang in langs) != (code is not None):
            out.viol('readcodelanguages-mismatch', lang, f'{langs}')
        if code is None:
            out.cls('withheld')
            out.nontrivial = False
            return out
        out.cls('offered')
        cwd = {'rel': apath, 'base': apath if (bp and pm == 'base') else root, 'abs': other}[pm]
        tag = f"{lang}:atomrank{len(atom)}" + (':complex' if vt.startswith('complex') else '')
        if spec.get('legacy') and not spec.get('churn'):
            # a directory as earlier versions of the library wrote it: the top-level description has no 'darrobject' entry.  The
            # library opens such a directory; running the generated code (which may open it, too) must leave every file as it is
            out.cls('legacy-description-without-darrobject')
            import json as _json
            for sub_ in ('', 'values', 'indices'):
                dp = os.path.join(apath, sub_, 'arraydescription.json')
                with open(dp) as f_:
                    dj = _json.load(f_)
                dj.pop('darrobject', None)
                with open(dp, 'w') as f_:
                    _json.dump(dj, f_, sort_keys=True, indent=4)
        before = snapshot(apath)
        origin = ORIGIN[lang]
        # ---- example statement: ordinal word, k value and index origin must agree and name an existing subarray
        m = re.search(r'(first|second|third)\s+\(k=(\d+)\)', code)
        if not m:
            out.cls('example-comment-not-located')      # reworded comment: the bound value is still checked against the subarrays
            pos, kval = None, None
        else:
            pos = ORD[m.group(1)]
            kval = int(m.group(2))
        if pos is not None and n >= 1 and (pos > n or kval != pos - 1 + origin):
            out.viol('example-inconsistent', lang, f'comment says {m.group(1)} (k={kval}) for a ragged array of {n} subarrays in a {origin}-based language')
            return out
        # ---- run
        if lang == 'darr' and "'path_to_data_dir'" not in code:
            out.cls('darr-placeholder-not-located')
            return out
        if lang in ('numpymemmap', 'darr'):
            src = code.replace("'path_to_data_dir'", repr(apath)) if lang == 'darr' else code
            try:
                ns = run_python_family(src, cwd)
            except Exception as e:
                ns = None
                if not novalues:
                    out.viol('python-code-raised', f'{tag}:{pm}', f'{type(e).__name__}: {e}\n{code}')
            after = snapshot(apath)
            if after != before:
                out.viol('running-the-code-changed-files', tag, '; '.join(diff(before, after)))
                return out
            if ns is None or novalues:
                return out
            if 'sa' not in ns:
                out.viol('example-does-not-bind', lang, 'sa is not bound')
                return out
            if not check_example(out, None, np.asarray(ns['sa']), items, pos, f'{lang}:example'):
                return out
            if lang == 'numpymemmap':
                for k in ks:
                    try:
                        sub = np.asarray(ns['getsubarray'](k))
                    except Exception as e:
                        out.viol('accessor-fails', tag, f'getsubarray({k}) of {n} subarrays raised {type(e).__name__}: {e}')
                        break
                    if not check_sub(out, None, sub, items[k], tag, f'getsubarray({k})'):
                        break
                for nm in ('i', 'v'):
                    if isinstance(ns.get(nm), np.memmap) and ns[nm].flags.writeable:
                        out.viol('opens-for-writing', tag, f'{nm} is a writeable memmap')
            ns = None
            return out
        try:
            it = dialects.make(lang, cwd)
            try:
                it.run(code)
            except Modifies as e:
                out.viol('opens-for-writing', tag, str(e))
                return out
            except IllFormed as e:
                if not novalues:
                    out.viol('ill-formed-program', tag, f'{e}\n{code}')
                    return out
                it = None
        except NotUnderstood as e:
            raise HarnessError(f'reference interpreter for {lang} does not understand the generated code: {e}\n{code}')
        except Indeterminate:
            out.cls('indeterminate')
            return out
        if snapshot(apath) != before:
            raise HarnessError('the reference interpreter itself modified the array directory')
        if it is None:
            return out
        for pth, mode in it.opened:
            if any(c in mode for c in 'wa+'):
                out.viol('opens-for-writing', tag, f'{pth!r} opened with mode {mode!r}')
        import pathlib
        real = os.path.realpath(apath)
        wantp = {'rel': ['indices/arrayvalues.bin', 'values/arrayvalues.bin'],
                 'base': [(pathlib.Path(basepath) / s / 'arrayvalues.bin').as_posix() for s in ('indices', 'values')],
                 'abs': [os.path.join(real, s, 'arrayvalues.bin') for s in ('indices', 'values')]}[pm]
        gotp = sorted({p for p, _ in it.opened})
        if gotp != sorted(wantp):
            out.viol('wrong-path', f'{lang}:{pm}', f'code refers to {gotp}, requested {wantp}')
            return out
        if novalues:
            return out
        # example statement binds the stated subarray
        if 'sa' not in it.env or isinstance(it.env['sa'], Closure):
            out.viol('example-does-not-bind', lang, f'after running the program the variable sa is unbound\n{code[-300:]}')
            return out
        if not check_example(out, it, it.env['sa'], items, pos, f'{lang}:example'):
            return out
        # accessor for every k
        try:
            for k in ks:
                kk = k + origin
                if lang == 'idl':
                    it2 = dialects.make(lang, cwd, override={'k': kk}).run(code)
                    v = it2.env.get('sa')
                else:
                    v = it.call_function('getsubarray', kk)
                if not check_sub(out, it, v, items[k], tag + (':zero-length' if lens[k] == 0 else ''), f'subarray k={kk}'):
                    break
        except IllFormed as e:
            out.viol('accessor-fails', tag + (':zero-length' if lens[k] == 0 else ''), f'k={kk}: {e}')
        except Indeterminate:
            out.cls('indeterminate')
    return out


def execute(ctx, spec):
    out = _execute(ctx, spec)
    atom, lens = tuple(spec['atom']), spec['lens']
    corner = spec['lang'] == 'scilab' and spec['vt'].startswith('complex') and (1 in atom or (len(atom) >= 1 and sum(lens) == 1))
    if corner and out.violations:
        # one root cause: squeeze() in the complex workaround removes genuine extent-1 axes, after which the number of
        # subscripts of the accessor no longer matches the array
        det = '; '.join(f"{v['kind']}: {v['detail'][:150]}" for v in out.violations[:2])
        out.violations = [{'kind': 'scilab-complex-squeeze-drops-singleton-axis', 'callsite': 'scilab:complex:extent-1-axis', 'detail': det}]
    return out


def all_specs(seed=1):
    for lang, vt, it, atom, lens, bo in itertools.product(LANGS, NUMTYPES, INDEXTYPES, ATOMS, PROFILES, '<>'):
        yield {'lang': lang, 'vt': vt, 'it': it, 'atom': list(atom), 'lens': lens, 'bo': bo, 'pm': 'rel', 'seed': seed}


def extra_specs():
    # ragged arrays that hold no values: only the side-effect / well-formedness clauses apply
    for lang in LANGS:
        for lens in ([], [0], [0, 0, 0]):
            for atom in ((), (2,)):
                yield {'lang': lang, 'vt': 'float64', 'it': 'int64', 'atom': list(atom), 'lens': lens, 'bo': '<', 'pm': 'rel', 'seed': 1}
    # final state reached through a history on one live handle
    for lang in LANGS:
        for lens in ([2, 3, 1], [1, 0, 4, 2]):
            yield {'lang': lang, 'vt': 'int16', 'it': 'int32', 'atom': [2], 'lens': lens, 'bo': '<', 'pm': 'rel', 'seed': 3, 'churn': True}
        for lens in ([3], [2, 1], [1, 0, 4, 2], [2, 0]):
            for churn in ('trunc-last', 'ask-append-empties-ask', 'ask-trunc-empties-ask', 'ask-during-iterappend', 'r-ask-r+-append-r-ask'):
                yield {'lang': lang, 'vt': 'float32', 'it': 'int64', 'atom': [], 'lens': lens, 'bo': '<', 'pm': 'rel', 'seed': 5, 'churn': churn}
                yield {'lang': lang, 'vt': 'int16', 'it': 'int32', 'atom': [2], 'lens': lens, 'bo': '>', 'pm': 'abs', 'seed': 6, 'churn': churn}
    # path modes
    for lang in LANGS:
        for pm in ('base', 'abs'):
            for atom in ((), (3, 2)):
                yield {'lang': lang, 'vt': 'int32', 'it': 'int64', 'atom': list(atom), 'lens': [1, 0, 2], 'bo': '>', 'pm': pm, 'seed': 2}
                yield {'lang': lang, 'vt': 'int32', 'it': 'int64', 'atom': list(atom), 'lens': [1, 0, 2], 'bo': '>', 'pm': pm, 'seed': 2 + len(atom), 'relopen': True}
                yield {'lang': lang, 'vt': 'int32', 'it': 'int64', 'atom': list(atom), 'lens': [1, 0, 2], 'bo': '>', 'pm': pm, 'seed': 2, 'via': 'symlink-dotdot'}
                yield {'lang': lang, 'vt': 'int32', 'it': 'int64', 'atom': list(atom), 'lens': [1, 0, 2], 'bo': '>', 'pm': pm, 'seed': 2, 'positional': True}


def large_specs(thorough):
    # value arrays just above a megabyte and above 64 MiB (index arrays stay small): a reader chosen by size has to be right at every size
    for lang in LANGS:
        for bo in '<>':
            yield {'lang': lang, 'vt': 'int16', 'it': 'int64', 'atom': [], 'lens': [2 ** 19 - 2, 3, 0, 5], 'bo': bo, 'pm': 'rel', 'seed': 1, 'large': '1MiB'}
            yield {'lang': lang, 'vt': 'float32', 'it': 'int32', 'atom': [2], 'lens': [7, 2 ** 17, 1], 'bo': bo, 'pm': 'rel', 'seed': 1, 'large': '1MiB'}
        yield {'lang': lang, 'vt': 'float64', 'it': 'int64', 'atom': [], 'lens': [3, 2 ** 23 - 1, 2], 'bo': '>', 'pm': 'rel', 'seed': 1, 'large': '64MiB'}
        # an index array above a megabyte: 70000 short subarrays (the accessor is tried for a sample of k, see _execute)
        yield {'lang': lang, 'vt': 'int8', 'it': 'int64', 'atom': [], 'lens': [1, 0, 2] * 23400, 'bo': '>', 'pm': 'rel', 'seed': 1, 'large': 'index>1MiB'}
        if thorough:
            yield {'lang': lang, 'vt': 'float64', 'it': 'int64', 'atom': [], 'lens': [3, 2 ** 23 - 1, 2], 'bo': '<', 'pm': 'abs', 'seed': 1, 'large': '64MiB'}
            yield {'lang': lang, 'vt': 'int32', 'it': 'int32', 'atom': [2, 2], 'lens': [2 ** 20, 1, 2 ** 21, 5], 'bo': '>', 'pm': 'base', 'seed': 1, 'large': '16MiB'}
            yield {'lang': lang, 'vt': 'uint8', 'it': 'uint32', 'atom': [], 'lens': [2 ** 27, 0, 9], 'bo': '<', 'pm': 'rel', 'seed': 1, 'large': '128MiB'}


def path_specs():
    for lang in LANGS:
        yield {'lang': lang, 'vt': 'int16', 'it': 'int64', 'atom': [], 'lens': [2, 1], 'bo': '<', 'pm': 'abs', 'seed': 2, 'both': True}
        for pm in ('rel', 'abs'):
            yield {'lang': lang, 'vt': 'int32', 'it': 'int64', 'atom': [2], 'lens': [2, 0, 1], 'bo': '<', 'pm': pm, 'seed': 2, 'legacy': True}
        for bp in ('empty', 'dot', 'dotslash', 'emptypath', 'dotpath'):
            yield {'lang': lang, 'vt': 'int16', 'it': 'int32', 'atom': [2], 'lens': [1, 0, 2], 'bo': '<', 'pm': 'base', 'seed': 2, 'bp': bp}
        for names in ('unicode', 'space-dash', 'cjk'):
            for pm in ('rel', 'base', 'abs'):
                yield {'lang': lang, 'vt': 'float32', 'it': 'int64', 'atom': [], 'lens': [2, 0, 1], 'bo': '>', 'pm': pm, 'seed': 2, 'names': names}


@st.composite
def st_spec(draw):
    atom = [draw(st.integers(1, 3)) for _ in range(draw(st.integers(0, 3)))]
    lens = draw(st.lists(st.integers(0, 4), min_size=1, max_size=8))
    if sum(lens) == 0:
        lens[draw(st.integers(0, len(lens) - 1))] = 1
    return {'lang': draw(st.sampled_from(LANGS)), 'vt': draw(st.sampled_from(NUMTYPES)), 'it': draw(st.sampled_from(INDEXTYPES)), 'atom': atom,
            'lens': lens, 'bo': draw(st.sampled_from('<>')), 'pm': draw(st.sampled_from(['rel', 'base', 'abs'])), 'seed': draw(st.integers(0, 2 ** 20)),
            'churn': draw(st.sampled_from([False, False, True, 'trunc-last', 'ask-append-empties-ask', 'ask-trunc-empties-ask', 'ask-during-iterappend', 'r-ask-r+-append-r-ask'])),
            'relopen': draw(st.booleans()), 'via': draw(st.sampled_from([None, None, None, 'symlink-dotdot'])),
            'names': draw(st.sampled_from([None, None, None, 'unicode', 'space-dash', 'cjk'])), 'bp': draw(st.sampled_from([None, None, None, None, 'empty', 'dot', 'dotslash', 'emptypath', 'dotpath'])),
            'legacy': draw(st.sampled_from([False, False, False, True])), 'both': draw(st.sampled_from([False, False, True]))}


def task_enum(ctx, col, shard, stride):
    """Every stride-th spec of the complete product (stride 1 = exhaustive), rotated by the seed."""
    specs = (s for i, s in enumerate(all_specs(ctx.seed)) if (i + ctx.seed) % stride == 0)
    enum_search(ctx, col, (s for i, s in enumerate(specs) if i % NSHARDS == shard), lambda s: execute(ctx, s))
    if shard == 0:
        enum_search(ctx, col, extra_specs(), lambda s: execute(ctx, s))
    enum_search(ctx, col, (s for i, s in enumerate(path_specs()) if i % NSHARDS == shard), lambda s: execute(ctx, s))
    enum_search(ctx, col, (s for i, s in enumerate(large_specs(stride == 1)) if i % NSHARDS == shard), lambda s: execute(ctx, s))


def task_random(ctx, col, shard, n):
    hyp_search(ctx, col, st_spec(), lambda s: execute(ctx, s), shard_seed(ctx, shard), n)


def tasks(ctx):
    global EXHAUSTIVE
    from checks.c06 import interpreter_selftest
    interpreter_selftest(ctx)
    stride = ctx.pick(11, 1)
    EXHAUSTIVE = None if stride != 1 else "9 languages x 13 value types x 7 index types x 4 atoms x 6 length profiles x 2 byte orders, every k"
    t = []
    for sh in range(NSHARDS):
        t.append((task_enum, dict(shard=sh, stride=stride)))
        t.append((task_random, dict(shard=sh, n=ctx.pick(150, 1500))))
    return t
