"""C03 - Array histories of append/assign/truncate equal the NumPy model and persist.

Model-based: every generated history is applied to the real Array and to an
ndarray model in lock-step (vlib/hist.py); live handle, fresh handle and the raw
data file are compared with the model after each step; calls the model rejects
must raise and leave directory and handle unchanged.
"""
import itertools
from hypothesis import strategies as st
from vlib.runner import Outcome, hyp_search, enum_search, shard_seed, NSHARDS
from vlib import hist

PROPERTY = 'C03'
LEVEL = 'exploration'
RULE = ("case = start state (dtype x byte order, rank 1-3, first axis 0..5, asarray|create_array, r|r+) + list of op records "
        "{append(rows|other dtype|list|scalar|zero rows|layout|bad shape|bad rank|unconvertible), iterappend(0-4 chunks, "
        "list|generator), setitem(basic index, value), truncate(index token, by object|str|Path), accessmode, reopen}; "
        "bounded-exhaustive over a 12-op alphabet from 4 start states + Hypothesis-generated longer histories; oracle = "
        "ndarray model compared after every step on live handle, fresh handle and data file; non-trivial = >=3 ops of "
        ">=2 kinds including a reopen or mode switch, or any rejected call; distinct = canonical spec")
ASSUMPTIONS = ["bool and NumPy-integer truncate indices are not generated (bool is an int; NumPy ints carry a FIXME in the code)",
               "appended values keep NumPy casts defined (no NaN/out-of-range float->int)",
               "after truncate_array(path, ...) the pre-existing live handle is reopened (its cached shape is stale by design)"]
EXHAUSTIVE = None
MUST_HIT = ['append-to-empty', 'trunc0-then-append', 'zero-row-append', 'iterappend-empty:empty', 'iterappend-empty:nonempty',
            'otherdt->bigendian', 'rejected-call', 'ro-mutator', 'nonnative', 'rank>=2', 'trunc-to-0']

ALPHABET = [
    {'o': 'append', 'arg': {'k': 'rows', 'n': 2, 'seed': 11}},
    {'o': 'append', 'arg': {'k': 'otherdt', 'n': 1, 'seed': 12, 'dt': {'t': 'float64', 'bo': '<'}}},
    {'o': 'append', 'arg': {'k': 'zero', 'n': 1, 'seed': 13}},
    {'o': 'append', 'arg': {'k': 'badshape', 'n': 1, 'seed': 14}},
    {'o': 'iterappend', 'chunks': [], 'gen': True},
    {'o': 'iterappend', 'chunks': [{'k': 'rows', 'n': 1, 'seed': 15}, {'k': 'list', 'n': 2, 'seed': 16}], 'gen': True},
    {'o': 'set', 'idx': {'t': 'int', 'v': 0}, 'val': {'k': 'scalar', 'seed': 17}},
    {'o': 'trunc', 'i': 0, 'by': 'obj'},
    {'o': 'trunc', 'i': -1, 'by': 'obj'},
    {'o': 'trunc', 'i': 'len', 'by': 'obj'},
    {'o': 'reopen', 'm': 'r+'},
    {'o': 'mode', 'm': 'r'},
]
STARTS = [
    {'dt': {'t': 'int32', 'bo': '<'}, 'shape': [0], 'seed': 1, 'how': 'create', 'mode': 'r+', 'meta': False},
    {'dt': {'t': 'int16', 'bo': '>'}, 'shape': [3], 'seed': 2, 'how': 'asarray', 'mode': 'r+', 'meta': False},
    {'dt': {'t': 'float64', 'bo': '<'}, 'shape': [2, 3], 'seed': 3, 'how': 'asarray', 'mode': 'r+', 'meta': True},
    {'dt': {'t': 'complex64', 'bo': '>'}, 'shape': [0, 2, 2], 'seed': 4, 'how': 'asarray', 'mode': 'r+', 'meta': False},
]


def execute(ctx, spec):
    out, run = hist.run_array_history(ctx, spec, ('model',))
    kinds = set(run.kinds)
    out.nontrivial = (len(spec['ops']) >= 3 and len(kinds) >= 2 and bool(kinds & {'reopen', 'mode'})) or \
        'rejected-call' in out.classes
    return out


def enum_specs(L):
    for si, start in enumerate(STARTS):
        for n in range(1, L + 1):
            for ops in itertools.product(range(len(ALPHABET)), repeat=n):
                yield {'start': start, 'ops': [ALPHABET[i] for i in ops]}


def task_enum(ctx, col, shard, L):
    specs = (s for i, s in enumerate(enum_specs(L)) if i % NSHARDS == shard)
    enum_search(ctx, col, specs, lambda s: execute(ctx, s))


def task_truncgrid(ctx, col, shard):
    enum_search(ctx, col, (s for i, s in enumerate(hist.trunc_grid_specs()) if i % NSHARDS == shard), lambda s: execute(ctx, s))
    enum_search(ctx, col, (s for i, s in enumerate(hist.zero_extent_specs()) if i % NSHARDS == shard), lambda s: execute(ctx, s))


def task_bigoperand(ctx, col, shard):
    specs = list(hist.big_operand_specs())
    enum_search(ctx, col, (s for i, s in enumerate(specs) if i % NSHARDS == shard), lambda s: execute(ctx, s))


def task_random(ctx, col, shard, n, max_ops):
    hyp_search(ctx, col, hist.st_array_history(max_ops=max_ops), lambda s: execute(ctx, s), shard_seed(ctx, shard), n)


def tasks(ctx):
    global EXHAUSTIVE
    L = ctx.pick(3, 4)
    EXHAUSTIVE = f"all op sequences of length <= {L} over the 12-op alphabet from 4 start states"
    t = []
    for sh in range(NSHARDS):
        t.append((task_enum, dict(shard=sh, L=L)))
        t.append((task_truncgrid, dict(shard=sh)))
        t.append((task_bigoperand, dict(shard=sh)))
        t.append((task_random, dict(shard=sh, n=ctx.pick(600, 2500), max_ops=ctx.pick(10, 40))))
    return t
