"""C11 - read-only access mode is enforced for every mutating operation.

Complete matrix {Array, RaggedArray} x state x metadata x way of obtaining mode
'r' x mutator: in mode 'r' the call must raise and the whole directory snapshot
must be byte-identical; after accessmode = 'r+' on the same handle the same call
must succeed with its expected effect.  Hypothesis adds preceding histories of
mode switches and valid operations.
"""
import os, itertools
import numpy as np
from hypothesis import strategies as st
from vlib.runner import Outcome, hyp_search, enum_search, shard_seed, NSHARDS
from vlib.snap import snapshot, diff

PROPERTY = 'C11'
LEVEL = 'exploration'
RULE = ("cell = (kind Array|RaggedArray, state {first axis 0, non-empty | ragged: no subarrays, subarrays with empty values, "
        "non-empty}, with/without metadata, how mode r was obtained {default open, accessmode='r' at creation, assignment after "
        "r+, r->r+->r}, mutator {setitem, append, iterappend, truncate, delete, metadata update/setitem/pop/popitem/del}, "
        "preceding history of mode switches/valid ops); the matrix is enumerated completely, histories by Hypothesis; oracle = "
        "raises + byte-identical directory snapshot in 'r', success with the expected effect after 'r+'; every cell is non-trivial; "
        "distinct = canonical cell")
ASSUMPTIONS = ["where no valid argument exists in the state (truncate of an empty array, popitem/pop without default/del on absent "
               "metadata) only 'raises and changes nothing' is required in mode r; the r+ success half is skipped",
               "snapshot compares file content, kind and permission bits; mtime is ignored"]
EXHAUSTIVE = "the full kind x state x metadata x how x mutator matrix (no preceding history)"
KINDS = {'Array': ['empty', 'nonempty', 'empty2d', 'zerotail'], 'Ragged': ['nosub', 'emptyvalues', 'nonempty']}
HOWS = ['held-open-while-twin-is-opened-r+', 'r+-then-abandoned-iterator-then-r', 'via-copy', 'default-open', 'create-r', 'assign', 'r-r+-r', 'after-r+block', 'reassign-r-after-metadata-r+', 'after-nested-mixed-blocks', 'switched-inside-open-context', 'switch-to-r+-attempted-inside-own-r-block']
MUTS = {'Array': ['setitem', 'append', 'append0', 'append0list', 'iterappend0', 'iterappend', 'truncate', 'delete', 'md.update', 'md.setitem', 'md.pop', 'md.popdefault', 'md.popitem', 'md.del'],
        'Ragged': ['append', 'append0', 'iterappend', 'truncate', 'delete', 'md.update', 'md.setitem', 'md.pop', 'md.popdefault', 'md.popitem', 'md.del']}
MUST_HIT = [f'how:{h}' for h in HOWS] + [f'Array:{s}' for s in KINDS['Array']] + [f'Ragged:{s}' for s in KINDS['Ragged']] + \
           ['meta:yes', 'meta:no', 'meta:single-key', 'pre-history']


def _create(kind, state, meta, path, mode):
    import darr
    md = ({'k1': 1} if meta == 'one' else {'k1': 1, 'k2': [1, 2]}) if meta else None     # 'one': the mutator removes the last key
    if kind == 'Array':
        if state == 'empty':
            return darr.create_array(path, shape=(0,), dtype='int32', accessmode=mode, metadata=md, chunklen=1)
        if state == 'empty2d':
            return darr.asarray(path, np.zeros((0, 3), 'float64'), accessmode=mode, metadata=md)
        if state == 'zerotail':      # three rows without elements: empty through a non-first axis
            return darr.asarray(path, np.zeros((3, 0), dtype='int32'), accessmode=mode, metadata=md, chunklen=1)
        return darr.asarray(path, np.arange(6, dtype='int32').reshape(3, 2), accessmode=mode, metadata=md)
    if state == 'nosub':
        return darr.create_raggedarray(path, atom=(), dtype='int32', accessmode=mode, metadata=md)
    if state == 'emptyvalues':
        return darr.asraggedarray(path, [np.zeros(0, 'int32'), np.zeros(0, 'int32')], dtype='int32', accessmode=mode, metadata=md)
    return darr.asraggedarray(path, [[1, 2], [3], []], dtype='int32', accessmode=mode, metadata=md)


def _open(kind, path, mode=None):
    import darr
    cls = darr.Array if kind == 'Array' else darr.RaggedArray
    return cls(path) if mode is None else cls(path, accessmode=mode)


def _mutator(kind, state, meta, mut):
    """Returns (call(handle), verify(handle, path) -> str|None, valid_in_rplus)."""
    import darr
    if kind == 'Array':
        row = [7, 8] if state == 'nonempty' else ([1.5, 2.5, 3.5] if state == 'empty2d' else [] if state == 'zerotail' else 9)
        n0 = 3 if state in ('nonempty', 'zerotail') else 0
    if mut == 'setitem':
        if state == 'nonempty':
            return (lambda h: h.__setitem__(0, 5), lambda h, p: None if (h[0] == 5).all() else 'assignment not visible', True)
        return (lambda h: h.__setitem__(slice(None), 5), lambda h, p: None, True)
    if mut == 'append' and kind == 'Array':
        arg = np.zeros((1, 0), 'int32') if state == 'zerotail' else [row]
        return (lambda h: h.append(arg), lambda h, p: None if len(h) == n0 + 1 else f'len {len(h)}', True)
    if mut in ('append0', 'append0list', 'iterappend0') and kind == 'Array':
        # an append of no rows at all (an empty array of the right row shape, the empty list, an empty iterable): nothing would be
        # written, but the handle is read-only and the call is refused like any other append
        tail0 = {'nonempty': (2,), 'empty2d': (3,), 'zerotail': (0,)}.get(state, ())
        arg0 = [] if mut == 'append0list' else np.zeros((0,) + tail0, 'float64')
        call0 = (lambda h: h.iterappend([])) if mut == 'iterappend0' else (lambda h: h.append(arg0))
        return (call0, lambda h, p: None if len(h) == n0 else f'len {len(h)}', not (mut == 'append0list' and tail0))
    if mut == 'iterappend' and kind == 'Array':
        arg = np.zeros((1, 0), 'int32') if state == 'zerotail' else [row]
        return (lambda h: h.iterappend([arg, arg]), lambda h, p: None if len(h) == n0 + 2 else f'len {len(h)}', True)
    if mut == 'truncate' and kind == 'Array':
        if state in ('nonempty', 'zerotail'):
            return (lambda h: darr.truncate_array(h, 2), lambda h, p: None if len(h) == 2 else f'len {len(h)}', True)
        return (lambda h: darr.truncate_array(h, 0), None, False)
    if mut == 'delete':
        fn = darr.delete_array if kind == 'Array' else darr.delete_raggedarray
        return (lambda h: fn(h), lambda h, p: None if not os.path.exists(p) else 'path still exists', True)
    if kind == 'Ragged':
        nr = {'nosub': 0, 'emptyvalues': 2, 'nonempty': 3}[state]
        if mut == 'append':
            return (lambda h: h.append([4, 5]), lambda h, p: None if len(h) == nr + 1 and h[-1].tolist() == [4, 5] else f'len {len(h)}', True)
        if mut == 'append0':
            return (lambda h: h.append(np.zeros(0, 'int32')), lambda h, p: None if len(h) == nr + 1 else f'len {len(h)}', True)
        if mut == 'iterappend':
            return (lambda h: h.iterappend([[4], [], [5, 6]]), lambda h, p: None if len(h) == nr + 3 else f'len {len(h)}', True)
        if mut == 'truncate':
            if nr:
                return (lambda h: darr.truncate_raggedarray(h, nr - 1), lambda h, p: None if len(h) == nr - 1 else f'len {len(h)}', True)
            return (lambda h: darr.truncate_raggedarray(h, 0), None, False)
    if mut == 'md.update':
        return (lambda h: h.metadata.update({'z': 1}), lambda h, p: None if h.metadata.get('z') == 1 else 'not stored', True)
    if mut == 'md.setitem':
        return (lambda h: h.metadata.__setitem__('z', 2), lambda h, p: None if h.metadata.get('z') == 2 else 'not stored', True)
    if mut == 'md.pop':
        return (lambda h: h.metadata.pop('k1'), lambda h, p: None if 'k1' not in h.metadata else 'still there', bool(meta))
    if mut == 'md.popdefault':
        return (lambda h: h.metadata.pop('k1', None), lambda h, p: None if 'k1' not in h.metadata else 'still there', True)
    if mut == 'md.popitem':
        return (lambda h: h.metadata.popitem(), lambda h, p: None if len(h.metadata) == (0 if meta == 'one' else 1) else 'len', bool(meta))
    if mut == 'md.del':
        dk = 'k1' if meta == 'one' else 'k2'
        return (lambda h: h.metadata.__delitem__(dk), lambda h, p: None if dk not in h.metadata else 'still there', bool(meta))
    raise ValueError((kind, mut))


def execute(ctx, spec):
    out = Outcome()
    kind, state, meta, how, mut = spec['kind'], spec['state'], spec['meta'], spec['how'], spec['mut']
    out.cls(f'how:{how}', f'{kind}:{state}', 'meta:yes' if meta else 'meta:no')
    if meta == 'one':
        out.cls('meta:single-key')
    tag = f'{kind}:{state}:{mut}'
    with ctx.scratch() as d:
        path = os.path.join(d, 'x.darr')
        pre = spec.get('pre', [])
        keepopen = None
        try:
            if how == 'create-r':
                h = _create(kind, state, meta, path, 'r')
            else:
                _create(kind, state, meta, path, 'r+')
                if how == 'via-copy':
                    # a copy made with the default (or an explicit) read-only access mode
                    src = _open(kind, path, 'r+')
                    path = os.path.join(d, 'thecopy.darr')
                    kw_ = {'chunklen': 1} if state == 'zerotail' else {}     # (the default chunk length is computed by dividing by the row size)
                    h = src.copy(path, **kw_) if (len(mut) + len(state)) % 2 else src.copy(path, accessmode='r', **kw_)
                    src = None
                elif how == 'default-open':
                    # preceding history happens through another handle
                    h0 = _open(kind, path, 'r+')
                    _pre(out, kind, state, h0, pre)
                    h = _open(kind, path)
                elif how == 'assign':
                    h = _open(kind, path, 'r+')
                    _pre(out, kind, state, h, pre)
                    h.accessmode = 'r'
                elif how == 'after-r+block':
                    # the handle stays in mode 'r'; a documented per-block override writes (the same values) in between
                    h = _open(kind, path)
                    if kind == 'Array':
                        with h.open_array(accessmode='r+'):
                            if state == 'nonempty':
                                h[0] = h[0]
                            else:
                                h[:] = 0
                    else:
                        with h.open_arrays(accessmode='r+'):
                            _ = len(h)
                elif how == 'reassign-r-after-metadata-r+':
                    # the metadata object's own mode was set to r+; assigning 'r' to the handle (which already reports 'r') must bring it back
                    h = _open(kind, path)
                    h.metadata.accessmode = 'r+'
                    h.accessmode = 'r'
                elif how == 'after-nested-mixed-blocks':
                    # read-only and read-write blocks nested in both orders, plus a chunk iterator, all finished before the test
                    h = _open(kind, path)
                    if kind == 'Array':
                        with h.open_array():
                            with h.open_array(accessmode='r+'):
                                _ = len(h)
                        with h.open_array(accessmode='r+'):
                            with h.open_array(accessmode='r'):
                                _ = len(h)
                        if len(h):
                            for _ in h.iterchunks(1, accessmode='r'):
                                with h.open_array(accessmode='r+'):
                                    pass
                                break
                    else:
                        with h.open_arrays():
                            with h.open_arrays(accessmode='r+'):
                                _ = len(h)
                        with h.open_arrays(accessmode='r+'):
                            with h.open_arrays(accessmode='r'):
                                _ = len(h)
                elif how == 'held-open-while-twin-is-opened-r+':
                    # the read-only handle is held open (its own, read-only, context) while an identical array elsewhere - same kind,
                    # state, shape and type - is created and opened read-write; the mutator is issued inside the read-only context
                    h = _open(kind, path)
                    keepopen = h.open_array() if kind == 'Array' else h.open_arrays()
                    keepopen.__enter__()
                    twin = _create(kind, state, meta, os.path.join(d, 'twin.darr'), 'r+')
                    with (twin.open_array() if kind == 'Array' else twin.open_arrays()):
                        _ = len(twin)
                    twincm = twin.open_array() if kind == 'Array' else twin.open_arrays()
                    twincm.__enter__()
                    keep_twin = (twin, twincm)
                elif how == 'r+-then-abandoned-iterator-then-r':
                    # in its read-write period the handle was iterated and the iteration was left early (break / close); then mode 'r'
                    h = _open(kind, path, 'r+')
                    if len(h):
                        if kind == 'Array':
                            for _ in h.iterchunks(1):
                                break
                            g_ = h.iterchunks(1)
                            next(g_)
                            g_.close()
                        else:
                            for _ in h.iter_arrays():
                                break
                    h.accessmode = 'r'
                elif how == 'switched-inside-open-context':
                    # an r+ handle is switched to 'r' while its arrays are held open read-write; the mutator is issued inside that context.
                    # Only mutators that are guarded by the handle's own mode are claimed here (append, iterappend, metadata): element
                    # assignment, truncate and delete ask the open map, which a per-block accessmode override legitimately makes writeable.
                    h = _open(kind, path, 'r+')
                    keepopen = h.open_array() if kind == 'Array' else h.open_arrays()
                    keepopen.__enter__()
                    h.accessmode = 'r'
                    if not (mut in ('append', 'append0', 'append0list', 'iterappend0', 'iterappend') or mut.startswith('md.')):
                        keepopen.__exit__(None, None, None)
                        keepopen = None
                elif how == 'switch-to-r+-attempted-inside-own-r-block':
                    # a read-only handle holds its arrays open (read-only) and is asked to become 'r+' there.  Whether that request is
                    # honoured or refused is the library's business; if the handle says 'r' afterwards (refused, or set back by the
                    # caller when it was honoured) every mutator has to be refused again - no half-applied switch
                    h = _open(kind, path)
                    keepopen = h.open_array() if kind == 'Array' else h.open_arrays()
                    keepopen.__enter__()
                    try:
                        h.accessmode = 'r+'
                    except Exception:
                        out.cls('switch-inside-r-block:refused')
                    if h.accessmode != 'r':
                        h.accessmode = 'r'
                    if not (mut in ('append', 'append0', 'append0list', 'iterappend0', 'iterappend') or mut.startswith('md.')):
                        keepopen.__exit__(None, None, None)
                        keepopen = None
                else:
                    h = _open(kind, path)
                    h.accessmode = 'r+'
                    _pre(out, kind, state, h, pre)
                    h.accessmode = 'r'
        except Exception as e:
            out.viol('setup-raised', f'{kind}:{state}:{how}:{type(e).__name__}', f'{type(e).__name__}: {e}')
            return out
        if h.accessmode != 'r':
            out.viol('mode-not-r', f'{kind}:{how}', f'accessmode is {h.accessmode}')
            return out
        call, verify, valid = _mutator(kind, state, meta, mut)
        before = snapshot(path)
        try:
            call(h)
            raised = False
        except Exception:
            raised = True
        after = snapshot(path)
        if how == 'held-open-while-twin-is-opened-r+':
            try:
                keep_twin[1].__exit__(None, None, None)
            except Exception:
                pass
            try:
                keepopen.__exit__(None, None, None)
            except Exception:
                pass          # (the array may be gone if the mutator was a delete that wrongly went through)
            keepopen = None
            after = snapshot(path)
        if how in ('switched-inside-open-context', 'switch-to-r+-attempted-inside-own-r-block') and keepopen is not None:
            keepopen.__exit__(None, None, None)
            after = snapshot(path)
        if not raised:
            out.viol('readonly-mutator-did-not-raise', tag, f'{mut} on a read-only {kind} ({state}) returned normally; '
                     + ('; '.join(diff(before, after)) or 'files unchanged'))
            return out
        if before != after:
            out.viol('readonly-mutator-changed-files', tag, '; '.join(diff(before, after)))
            return out
        if valid and not pre_invalidates(spec):
            try:
                h.accessmode = 'r+'
                call(h)
            except Exception as e:
                out.viol('rplus-call-raised', f'{tag}:{type(e).__name__}', f'after accessmode=r+: {type(e).__name__}: {e}')
                return out
            if verify is not None and not pre:
                try:
                    msg = verify(h, path)
                except Exception as e:
                    msg = f'verify raised {type(e).__name__}: {e}'
                if msg:
                    out.viol('rplus-call-no-effect', tag, msg)
    return out


def pre_invalidates(spec):
    # preceding appends/metadata ops change lengths the fixed verify expectations rely on; success is still required
    return False


def _pre(out, kind, state, h, pre):
    if pre:
        out.cls('pre-history')
    for p in pre:
        if p in ('r', 'r+'):
            h.accessmode = p
        elif p == 'append' and h.accessmode == 'r+':
            if kind == 'Array':
                row = [7, 8] if state == 'nonempty' else ([1.5, 2.5, 3.5] if state == 'empty2d' else [] if state == 'zerotail' else 9)
                h.append(np.zeros((1, 0), 'int32') if state == 'zerotail' else [row])
                import darr
                darr.truncate_array(h, len(h) - 1) if len(h) > 1 or state in ('nonempty', 'zerotail') else None
            else:
                h.append([9, 9])
                import darr
                darr.truncate_raggedarray(h, len(h) - 1)
        elif p == 'read':
            _ = h[0] if len(h) else None
        elif p == 'meta' and h.accessmode == 'r+':
            h.metadata['tmp'] = 1
            h.metadata.pop('tmp')
    if h.accessmode != 'r+':
        h.accessmode = 'r+'


def matrix():
    for kind in KINDS:
        for state, meta, how, mut in itertools.product(KINDS[kind], (False, True, 'one'), HOWS, MUTS[kind]):
            yield {'kind': kind, 'state': state, 'meta': meta, 'how': how, 'mut': mut}


@st.composite
def st_cell(draw):
    kind = draw(st.sampled_from(sorted(KINDS)))
    return {'kind': kind, 'state': draw(st.sampled_from(KINDS[kind])), 'meta': draw(st.sampled_from([False, True, 'one'])),
            'how': draw(st.sampled_from(['assign', 'r-r+-r', 'default-open'])), 'mut': draw(st.sampled_from(MUTS[kind])),
            'pre': draw(st.lists(st.sampled_from(['r', 'r+', 'append', 'read', 'meta']), min_size=1, max_size=6))}


def task_matrix(ctx, col, shard):
    enum_search(ctx, col, (s for i, s in enumerate(matrix()) if i % NSHARDS == shard), lambda s: execute(ctx, s))


def task_random(ctx, col, shard, n):
    hyp_search(ctx, col, st_cell(), lambda s: execute(ctx, s), shard_seed(ctx, shard), n)


def tasks(ctx):
    t = []
    for sh in range(NSHARDS):
        t.append((task_matrix, dict(shard=sh)))
        t.append((task_random, dict(shard=sh, n=ctx.pick(200, 1300))))
    return t
