"""C15 - copy() and archive() produce faithful, independent replicas.

Generated sources (Array: 13 types x 2 byte orders, rank 1-3, first axis 0..6,
metadata none/nested; RaggedArray: atom rank 0-2, lengths incl. 0, also no
subarrays) x target dtype {None, every type x byte order - incl. the same type
in the other byte order} x chunklen x accessmode; the copy must equal
src[:].astype(dtype) (dtype string incl. byte order, shape, bytes, metadata);
after a generated mutation of one side the other side's snapshot is unchanged.
Archives x {xz, gz, bz2} x {default, explicit path} x overwrite flag x existing
archive: extraction is byte-identical, refusal leaves the old archive unchanged.
"""
import os, tarfile, itertools
import numpy as np
from hypothesis import strategies as st
from vlib.runner import Outcome, hyp_search, enum_search, shard_seed, NSHARDS
from vlib import gens
from vlib.gens import dt_of, NUMTYPES
from vlib.snap import snapshot, diff
from vlib.rhist import st_item, build_item, model_item

PROPERTY = 'C15'
LEVEL = 'exploration'
RULE = ("case = copy: source (Array or RaggedArray, generated dtype/byte order/shape/atom/subarray lengths incl. empty sources, "
        "metadata none|nested) x target dtype (None | any of 13 types x 2 byte orders) x chunklen x accessmode + one mutation "
        "(append, setitem, truncate, metadata change, delete) on source or copy; archive: kind x compression x default|explicit "
        "path x overwrite x pre-existing archive; oracle = NumPy astype reference, metadata dict equality, snapshots of the "
        "untouched side, tarfile extraction compared file by file; non-trivial = dtype given, or empty source, or chunklen < len, "
        "or a post-copy mutation; distinct = canonical spec")
ASSUMPTIONS = ["casts NumPy leaves undefined are avoided via the value modes of vlib/gens.cast_mode",
               "extracted archives are compared on names, kinds and file contents (permission bits may be normalised by tarfile filters)"]
EXHAUSTIVE = "archive matrix: 2 kinds x 3 compression types x default/explicit path x overwrite x existing/no archive; 13x26 source/target dtype grid for Array.copy"
MUTS = ['append', 'setitem', 'truncate', 'meta', 'delete']
MUST_HIT = ['copy:Array', 'copy:Ragged', 'src:empty-array', 'src:ragged-nosub', 'dtype:None', 'dtype:given', 'dtype:same-type-other-byteorder',
            'chunk<len', 'archive:xz', 'archive:gz', 'archive:bz2', 'archive:explicit-path', 'archive:existing+ow=False',
            'archive:existing+ow=True', 'archive:spelling', 'archive:long-directory-name', 'meta:nested', 'target-occupied-by-array-with-metadata', 'source-metadata-emptied',
            'returned-metadata-values-mutated-by-caller', 'copy-taken-during-iterappend'] + ['mut:' + m for m in MUTS]


@st.composite
def st_copy(draw):
    kind = draw(st.sampled_from(['Array', 'Array', 'Ragged']))
    dt = draw(gens.st_dt())
    swapped = {'t': dt['t'], 'bo': '<' if dt['bo'] == '>' else '>'}
    spec = {'f': 'copy', 'kind': kind, 'dt': dt, 'seed': draw(st.integers(0, 2 ** 31)),
            'dtarg': draw(st.one_of(st.none(), st.just(swapped), gens.st_dt(), gens.st_dt())), 'dtspell': draw(st.sampled_from([0, 0] + list(range(1, 16)))),
            'meta': draw(st.sampled_from([None, 'nested'])), 'mode': draw(st.sampled_from(['r', 'r+'])),
            'mut': draw(st.sampled_from(MUTS + [None])), 'side': draw(st.sampled_from(['src', 'copy'])),
            # 'occupied': the target path holds another array with metadata and is replaced (overwrite=True);
            # 'aliased': values handed out by src.metadata are changed in place by the caller before the copy is made;
            # 'emptied': the source had metadata once, all keys were popped
            'pre': draw(st.sampled_from([None, None, 'occupied', 'aliased', 'emptied', 'occupied+emptied', 'during-iterappend', 'refused-first'])), 'recopy': draw(st.sampled_from([None, None, 'shrink-regrow', 'grow', 'shrink']))}
    if kind == 'Array':
        spec['shape'] = draw(gens.st_shape(max_rank=3))
        spec['chunk'] = draw(st.sampled_from([None, 1, 2, 3, 100]))
    else:
        spec['atom'] = [draw(st.integers(1, 3)) for _ in range(draw(st.integers(0, 2)))]
        spec['items'] = draw(st.lists(st_item(), max_size=4))
    return spec


def build_source(spec, d):
    import darr
    dt = dt_of(spec['dt'])
    md = {'a': 1, 'n': {'x': [1, 2.5, 'é'], 'y': None}} if spec['meta'] else None
    sp = os.path.join(d, 'src.darr')
    dst = spec['dtarg']['t'] if spec['dtarg'] else spec['dt']['t']
    mode = gens.cast_mode(spec['dt']['t'], dst) if spec['dtarg'] else 'raw'
    if spec['kind'] == 'Array' and spec.get('hugerows'):
        ref = (np.arange(int(np.prod(spec['shape'])), dtype='int64') % 1000003).astype(dt).reshape(spec['shape'])
        src = darr.asarray(sp, ref, metadata=md, accessmode='r+', chunklen=1)
        return src, sp, ref, md
    if spec['kind'] == 'Array':
        ref = gens.build_array(dt, spec['shape'], {'m': mode, 's': spec['seed']})
        src = darr.asarray(sp, ref, metadata=md, accessmode='r+')
        return src, sp, ref, md
    atom = tuple(spec['atom'])
    items = []
    for it in spec['items']:
        it = dict(it, form='nd')
        x = gens.build_array(dt, (it['n'],) + atom, {'m': mode, 's': it['seed']})
        items.append(x)
    if items:
        src = darr.asraggedarray(sp, items, dtype=dt, metadata=md, accessmode='r+')
    else:
        src = darr.create_raggedarray(sp, atom=atom, dtype=dt, metadata=md, accessmode='r+')
    return src, sp, items, md


def read_all(h, kind):
    if kind == 'Array':
        x = h[:]
        return (np.dtype(h.dtype).str, x.shape, x.tobytes())
    return (np.dtype(h.dtype).str, tuple(h.atom), [(h[k].shape, h[k].tobytes()) for k in range(len(h))])


def execute(ctx, spec):
    if spec['f'] == 'copy':
        return _exec_copy(ctx, spec)
    if spec['f'] == 'archive-spelling':
        return _exec_archive_spelling(ctx, spec)
    return _exec_archive(ctx, spec)


SPELLINGS = ['name', './name', 'sub/../name', '~/name', '~', '$HOME/name', 'abs', 'abs-home']


def _exec_archive_spelling(ctx, spec):
    """archive(filepath=<spelling>) with older files sitting at every place the spelling could be taken to mean (the working
    directory, the home directory, a directory literally called '~' or '$HOME'): without overwrite nothing that exists may
    change, and with overwrite only the file the spelling names as given."""
    import darr, pathlib
    out = Outcome()
    sp, ow, kind = spec['spelling'], spec['ow'], spec['kind']
    out.cls('archive:spelling:' + sp, 'archive:spelling')
    with ctx.scratch() as d:
        home, cwd = os.path.join(d, 'home'), os.path.join(d, 'work')
        for p_ in (home, cwd, os.path.join(cwd, 'sub'), os.path.join(cwd, '~'), os.path.join(cwd, '$HOME')):
            os.mkdir(p_)
        name = 'backup.tar.' + spec['ct']
        for p_ in (home, cwd, os.path.join(cwd, '~'), os.path.join(cwd, '$HOME')):
            with open(os.path.join(p_, name), 'wb') as f:
                f.write(b'an older archive: ' + p_.encode())
        ap = os.path.join(d, 'data.darr')
        a = darr.asarray(ap, np.arange(6, dtype='<i2'), metadata={'k': 1}) if kind == 'Array' else \
            darr.asraggedarray(ap, [[1.5], [2.5, 3.5]], dtype='float32')
        arg = {'name': name, './name': './' + name, 'sub/../name': 'sub/../' + name, '~/name': '~/' + name, '~': '~',
               '$HOME/name': '$HOME/' + name, 'abs': os.path.join(cwd, name), 'abs-home': os.path.join(home, name)}[sp]
        literal = os.path.normpath(os.path.join(cwd, arg))          # what the string names as given, from the working directory
        if spec.get('aspath'):
            arg = pathlib.Path(arg)
        before = snapshot(d)
        oldcwd, oldhome = os.getcwd(), os.environ.get('HOME')
        os.chdir(cwd)
        os.environ['HOME'] = home
        try:
            try:
                a.archive(filepath=arg, compressiontype=spec['ct'], overwrite=ow)
                exc = None
            except Exception as e:
                exc = e
        finally:
            os.chdir(oldcwd)
            if oldhome is None:
                os.environ.pop('HOME', None)
            else:
                os.environ['HOME'] = oldhome
        after = snapshot(d)
        tag = f'archive-spelling:{sp}:ow={ow}'
        rel = os.path.relpath(literal, d)
        changed = [k for k in before if after.get(k) != before[k]]
        if not ow:
            if changed:
                out.viol('archive-refused-but-changed' if exc else 'archive-overwrite-not-refused', tag,
                         f'overwrite=False, yet existing entries changed: {changed[:3]} (exception: {type(exc).__name__ if exc else None})')
            elif os.path.lexists(literal) and not isinstance(exc, OSError):
                out.viol('archive-overwrite-not-refused', tag, f'{literal} exists; {type(exc).__name__ if exc else "no exception"}')
        else:
            other = [k for k in changed if k != rel and not rel.startswith(k + os.sep) and k != '.']
            if other:
                out.viol('archive-overwrote-another-file', tag, f'overwrite=True replaced {other[:3]}, the path given names {rel}')
    return out


def _exec_copy(ctx, spec):
    import darr
    out = Outcome()
    kind = spec['kind']
    out.cls('copy:' + kind)
    with ctx.scratch() as d:
        src, sp, ref, md = build_source(spec, d)
        dtarg = dt_of(spec['dtarg']) if spec['dtarg'] else None
        tdt = dtarg if dtarg is not None else dt_of(spec['dt'])
        if dtarg is not None and spec.get('dtspell'):
            # the same target type written another way (type class, name, one-letter code, alias, Python type): what is passed to
            # copy() is the spelling, what the copy must have is the dtype NumPy resolves it to
            dtarg = gens.spell_dtype(dtarg, spec['dtspell'])
            out.cls('dtype-spelling:' + ('object' if isinstance(dtarg, np.dtype) else dtarg.__name__ if isinstance(dtarg, type) else 'string'))
        out.cls('dtype:given' if dtarg is not None else 'dtype:None')
        if spec['dtarg'] and spec['dtarg']['t'] == spec['dt']['t'] and spec['dtarg']['bo'] != spec['dt']['bo']:
            out.cls('dtype:same-type-other-byteorder')
        if md:
            out.cls('meta:nested')
        cp = os.path.join(d, 'copy.darr')
        tag = f"{kind}.copy:{'dtype' if dtarg is not None else 'nodtype'}"
        kw = {}
        empty = (kind == 'Array' and spec['shape'][0] == 0) or (kind == 'Ragged' and not ref)
        if kind == 'Array':
            if spec['shape'][0] == 0:
                out.cls('src:empty-array')
            if spec['chunk'] is not None:
                kw['chunklen'] = spec['chunk']
                if spec['chunk'] < spec['shape'][0]:
                    out.cls('chunk<len')
        elif not ref:
            out.cls('src:ragged-nosub')
        if empty:
            tag += ':empty-source'
        pre = spec.get('pre') or ''
        if 'occupied' in pre:
            out.cls('target-occupied-by-array-with-metadata')
            occ = {'old': [1, 2], 'a': 'stale'}
            # (an occupant of the other kind leaves its sub-directories behind by design, so a later delete of the copy would be
            #  refused: for that mutation the occupant is of the same kind)
            samekind = spec.get('mut') == 'delete'
            if (kind == 'Array') if samekind else spec['seed'] % 2:
                darr.asarray(cp, np.arange(7, dtype='float32'), metadata=occ)
            else:
                darr.asraggedarray(cp, [[1, 2], [3]], dtype='int8', metadata=occ)
            kw['overwrite'] = True
        if pre == 'refused-first':
            # a copy to the same path that has to be refused (a target type Darr cannot hold) comes
            # first: it must leave nothing behind that gets into the way of the valid copy that follows
            out.cls('refused-copy-to-the-same-path-first')
            before_ = snapshot(d)
            for bad_kw in (dict(dtype='bool'), dict(dtype='U4'), dict(dtype='datetime64[s]'), dict(dtype=object)):
                try:
                    src.copy(cp, **bad_kw)
                except Exception:
                    pass
                else:
                    out.viol('invalid-copy-accepted', tag, f'copy({bad_kw}) returned normally')
                    return out
                after_ = snapshot(d)
                if after_ != before_:
                    out.viol('refused-copy-left-something-behind', tag, f'copy({bad_kw}): ' + '; '.join(diff(before_, after_))[:600])
                    return out
        if 'emptied' in pre and md:
            for k_ in list(md):
                src.metadata.pop(k_)
            md = None
            out.cls('source-metadata-emptied')
        if pre == 'aliased' and md:
            out.cls('returned-metadata-values-mutated-by-caller')
            try:
                v_ = src.metadata['n']
                v_['x'].append('changed by the caller')
                v_['MUT'] = 1
                d_ = dict(src.metadata)
                d_['a'] = 99
                d_['n']['y'] = 'changed by the caller'
                src.metadata.get('n')['x'][:] = []
                for x_ in src.metadata.values():
                    if isinstance(x_, dict):
                        x_.clear()
            except (KeyError, TypeError, AttributeError):
                pass            # (only possible if an earlier change of a returned value already leaked back)
        try:
            if pre == 'during-iterappend' and kind == 'Array' and not spec.get('hugerows'):
                # the copy is taken by the generator that feeds src.iterappend(), between two of its chunks: it must be a faithful
                # replica of what the handle shows at that moment
                out.cls('copy-taken-during-iterappend')
                tail_ = tuple(spec['shape'][1:])
                r1 = gens.build_array(dt_of(spec['dt']), (2,) + tail_, {'m': gens.cast_mode(spec['dt']['t'], tdt.name) if dtarg is not None else 'raw', 's': 91})
                r2 = gens.build_array(dt_of(spec['dt']), (1,) + tail_, {'m': 'safe', 's': 92})
                box = []

                def feed():
                    yield r1
                    box.append((src[:], src.copy(cp, dtype=dtarg, accessmode=spec['mode'], **kw)))
                    yield r2
                src.iterappend(feed())
                ref, c = box[0]
                empty = ref.shape[0] == 0
            else:
                c = src.copy(cp, dtype=dtarg, accessmode=spec['mode'], **kw)
        except Exception as e:
            out.viol('copy-raised', f'{tag}:{type(e).__name__}', f'{type(e).__name__}: {e}')
            return out
        # ---- faithful
        for hn, h in (('returned', c), ('fresh', darr.open(cp))):
            if type(h).__name__ != ('Array' if kind == 'Array' else 'RaggedArray'):
                out.viol('copy-wrong-kind', tag, type(h).__name__)
                return out
            if np.dtype(h.dtype).str != tdt.str:
                out.viol('copy-dtype', tag, f'{hn}: copy dtype {np.dtype(h.dtype).str}, expected {tdt.str}')
                return out
            if kind == 'Array':
                want = ref.astype(tdt)
                got = h[:]
                if got.shape != want.shape or got.tobytes() != want.tobytes():
                    out.viol('copy-content', tag, f'{hn}: {got.ravel()[:5]} vs {want.ravel()[:5]}')
                    return out
            else:
                if len(h) != len(ref) or tuple(h.atom) != tuple(spec['atom']):
                    out.viol('copy-content', tag, f'{hn}: len {len(h)} atom {h.atom}, expected {len(ref)} {spec["atom"]}')
                    return out
                for k, x in enumerate(ref):
                    w = x.astype(tdt)
                    g = h[k]
                    if g.shape != w.shape or g.tobytes() != w.tobytes() or np.dtype(g.dtype).str != tdt.str:
                        out.viol('copy-content', tag, f'{hn}: subarray {k}')
                        return out
            if dict(h.metadata) != (md or {}):
                out.viol('copy-metadata', tag, f'{hn}: {dict(h.metadata)} vs {md}')
                return out
        if c.accessmode != spec['mode']:
            out.viol('copy-accessmode', tag, f'{c.accessmode} vs {spec["mode"]}')
        # ---- a second copy, taken through the SAME source handle after it changed the array (shrunk and regrown to the same
        #      length with other rows / a longer subarray, grown, or shrunk): it equals the source as it is then
        if spec.get('recopy') and dtarg is None:
            out.cls('second-copy-after-change:' + spec['recopy'])
            try:
                n_ = len(src)
                trunc_ = darr.truncate_array if kind == 'Array' else darr.truncate_raggedarray
                tail_ = tuple(src.shape[1:]) if kind == 'Array' else tuple(src.atom)
                newrows = np.full((3,) + tail_, 7, dtype=src.dtype)
                if spec['recopy'] in ('shrink-regrow', 'shrink') and n_ >= 2:
                    trunc_(src, n_ - 1)
                if spec['recopy'] in ('shrink-regrow', 'grow'):
                    if kind == 'Array':
                        src.append(newrows[:1] if spec['recopy'] == 'shrink-regrow' else newrows)
                    else:
                        src.append(newrows)            # one subarray (of three rows)
                cp2 = os.path.join(d, 'copy2.darr')
                c2 = src.copy(cp2, **kw)
                want2 = read_all(darr.open(sp), kind)
                for hn, h in (('returned', c2), ('fresh', darr.open(cp2))):
                    if read_all(h, kind) != want2:
                        out.viol('second-copy-differs-from-source', f'{kind}:{spec["recopy"]}', f'{hn}: the copy taken after the source changed is not equal to the source')
                        return out
            except Exception as e:
                out.viol('copy-raised', f'{tag}:recopy:{type(e).__name__}', f'{type(e).__name__}: {e}')
                return out
        # ---- independent
        mut = spec['mut']
        if mut:
            out.cls('mut:' + mut)
            side = spec['side']
            victim, vpath, other, opath = (src, sp, c, cp) if side == 'src' else (c, cp, src, sp)
            victim = darr.open(vpath, accessmode='r+')
            obefore = snapshot(opath)
            ostate = read_all(darr.open(opath), kind)
            try:
                n = len(victim)
                if mut == 'append':
                    if kind == 'Array':
                        victim.append(np.zeros((2,) + tuple(victim.shape[1:]), dtype=victim.dtype))
                    else:
                        victim.append(np.ones((2,) + tuple(victim.atom), dtype=victim.dtype))
                elif mut == 'setitem':
                    if kind == 'Array' and victim.size:
                        victim[0] = 1
                    elif kind == 'Ragged':
                        victim.metadata['touched'] = 1
                elif mut == 'truncate':
                    if n:
                        (darr.truncate_array if kind == 'Array' else darr.truncate_raggedarray)(victim, n - 1)
                elif mut == 'meta':
                    victim.metadata['a'] = 'changed'
                    victim.metadata.pop('a')
                else:
                    (darr.delete_array if kind == 'Array' else darr.delete_raggedarray)(victim)
            except Exception as e:
                out.viol('mutation-raised', f'{kind}:{mut}:{side}:{type(e).__name__}', f'{type(e).__name__}: {e}')
                return out
            oafter = snapshot(opath)
            if oafter != obefore:
                out.viol('not-independent', f'{kind}:{mut}:{side}', f'mutating the {side} changed the other side: ' + '; '.join(diff(obefore, oafter)))
                return out
            try:
                if read_all(darr.open(opath), kind) != ostate:
                    out.viol('not-independent', f'{kind}:{mut}:{side}', 'contents of the other side changed')
            except Exception as e:
                out.viol('not-independent', f'{kind}:{mut}:{side}:{type(e).__name__}', f'other side unreadable: {type(e).__name__}: {e}')
        out.nontrivial = dtarg is not None or empty or bool(mut) or (kind == 'Array' and spec['chunk'] is not None and spec['chunk'] < spec['shape'][0])
    return out


def _exec_archive(ctx, spec):
    import darr
    out = Outcome()
    kind, ct = spec['kind'], spec['ct']
    out.cls('archive:' + ct)
    with ctx.scratch() as d:
        dname = 'data.darr'
        if spec.get('longname'):
            # directory names of 120 / 160 / 200 bytes (non-ASCII counts double): beyond what the oldest tar header format can hold
            out.cls('archive:long-directory-name')
            dname = ('recording-é-' + 'x' * spec['longname'])[:spec['longname']] + '.darr'
        ap = os.path.join(d, dname)
        if kind == 'Array':
            a = darr.asarray(ap, (np.arange(24, dtype='>i2') * 7).reshape(4, 3, 2), metadata={'k': [1, {'z': 2}]})
        else:
            a = darr.asraggedarray(ap, [[1.5, 2.5], [], [3.5]], dtype='float32', metadata={'k': 'é'})
        explicit = spec['explicit']
        arch = os.path.join(d, 'sub dir', 'my archive.tar') if explicit else ap + '.tar.' + ct
        if explicit:
            os.mkdir(os.path.dirname(arch))
            out.cls('archive:explicit-path')
        existing = spec['existing']
        ow = spec['ow']
        tag = f"archive:{kind}:{'explicit' if explicit else 'default'}:existing={existing}:ow={ow}"
        if existing == 'file':
            with open(arch, 'wb') as f:
                f.write(b'an older archive or any other file')
        elif existing == 'archive':
            try:
                a.archive(filepath=arch if explicit else None, compressiontype=ct)
            except Exception as e:
                out.viol('archive-raised', f'{tag}:first:{type(e).__name__}', f'{type(e).__name__}: {e}')
                return out
            darr.open(ap, accessmode='r+').metadata['later'] = 1     # so that a replaced archive differs
            a = darr.open(ap)
        before_arch = open(arch, 'rb').read() if existing else None
        before_dir = snapshot(ap)
        try:
            r = a.archive(filepath=arch if explicit else None, compressiontype=ct, overwrite=ow)
            exc = None
        except Exception as e:
            r, exc = None, e
        if snapshot(ap) != before_dir:
            out.viol('archive-changed-array', tag, '; '.join(diff(before_dir, snapshot(ap))))
            return out
        if existing and not ow:
            out.cls('archive:existing+ow=False')
            if not isinstance(exc, OSError):
                out.viol('archive-overwrite-not-refused', tag, f'{type(exc).__name__ if exc else "no exception"}')
                return out
            if not os.path.exists(arch):
                out.viol('archive-refused-but-changed', tag, 'the existing archive was deleted by the refused call')
            elif open(arch, 'rb').read() != before_arch:
                out.viol('archive-refused-but-changed', tag, 'existing archive file modified')
            return out
        if exc is not None:
            out.viol('archive-raised', f'{tag}:{type(exc).__name__}', f'{type(exc).__name__}: {exc}')
            return out
        if existing:
            out.cls('archive:existing+ow=True')
        if os.path.realpath(str(r)) != os.path.realpath(arch):
            out.viol('archive-wrong-path', tag, f'returned {r}, expected {arch}')
            return out
        ex = os.path.join(d, 'extracted')
        os.mkdir(ex)
        try:
            with tarfile.open(arch, 'r:' + ct) as tf:
                try:
                    tf.extractall(ex, filter='data')
                except TypeError:
                    tf.extractall(ex)
        except Exception as e:
            out.viol('archive-unreadable', tag, f'{type(e).__name__}: {e}')
            return out
        want = {k: (v[0],) + ((v[2],) if v[0] == 'file' else ()) for k, v in snapshot(ap).items()}
        root = os.path.join(ex, dname)
        got = {k: (v[0],) + ((v[2],) if v[0] == 'file' else ()) for k, v in snapshot(root).items()} if os.path.isdir(root) else {}
        if sorted(os.listdir(ex)) != [dname] or got != want:
            out.viol('archive-not-identical', tag, f'top={sorted(os.listdir(ex))}; ' + '; '.join(diff(want, got)))
            return out
        try:
            o = darr.open(root)
            if read_all(o, kind) != read_all(darr.open(ap), kind) or dict(o.metadata) != dict(darr.open(ap).metadata):
                out.viol('archive-opens-differently', tag, '')
        except Exception as e:
            out.viol('archive-unopenable', tag, f'{type(e).__name__}: {e}')
    return out


def grid():
    for kind, ct, explicit, existing, ow in itertools.product(['Array', 'Ragged'], ['xz', 'gz', 'bz2'], [False, True], [None, 'file', 'archive'], [False, True]):
        yield {'f': 'archive', 'kind': kind, 'ct': ct, 'explicit': explicit, 'existing': existing, 'ow': ow}
    for kind, ct, ln in itertools.product(['Array', 'Ragged'], ['xz', 'gz', 'bz2'], [120, 160, 200]):
        yield {'f': 'archive', 'kind': kind, 'ct': ct, 'explicit': ln == 160, 'existing': None, 'ow': False, 'longname': ln}
    # a source whose single rows are larger than the 80 MiB the default chunk length aims at (168 MB in all), copied with defaults
    yield {'f': 'copy', 'kind': 'Array', 'dt': {'t': 'int32', 'bo': '<'}, 'seed': 3, 'dtarg': None, 'meta': None, 'mode': 'r', 'mut': None, 'side': 'src',
           'shape': [2, 21000000], 'chunk': None, 'hugerows': True}
    for i, t in enumerate(NUMTYPES):
        for j, t2 in enumerate(NUMTYPES):
            for bo2 in '<>':
                yield {'f': 'copy', 'kind': 'Array', 'dt': {'t': t, 'bo': '<>'[(i + j) % 2]}, 'seed': i * 31 + j, 'dtarg': {'t': t2, 'bo': bo2},
                       'meta': None, 'mode': 'r', 'mut': None, 'side': 'src', 'shape': [5, 2], 'chunk': [None, 2][(i + j) % 2]}
    # every spelling of the target type, for a source of the same type in either byte order and of another type
    for t in NUMTYPES:
        for k in range(1, len(gens.dtype_spellings(gens.mkdtype(t, '<')))):
            for sbo, st_ in (('>', t), ('<', t), ('>', 'int8' if t != 'int8' else 'uint8')):
                for kind in ('Array', 'Ragged'):
                    spec = {'f': 'copy', 'kind': kind, 'dt': {'t': st_, 'bo': sbo}, 'seed': 5 + k, 'dtarg': {'t': t, 'bo': '<'}, 'dtspell': k,
                            'meta': None, 'mode': 'r', 'mut': None, 'side': 'src'}
                    yield dict(spec, shape=[3, 2], chunk=2) if kind == 'Array' else dict(spec, atom=[2], items=[{'n': 2, 'seed': 3}, {'n': 1, 'seed': 4}])


def pre_grid():
    for kind, meta, pre, dtarg in itertools.product(['Array', 'Ragged'], [None, 'nested'], ['occupied', 'aliased', 'emptied', 'occupied+emptied', 'during-iterappend', 'refused-first'],
                                                    [None, {'t': 'float64', 'bo': '>'}]):
        for seed in (1, 2):
            spec = {'f': 'copy', 'kind': kind, 'dt': {'t': 'int16', 'bo': '<'}, 'seed': seed, 'dtarg': dtarg, 'meta': meta, 'mode': 'r+',
                    'mut': None, 'side': 'src', 'pre': pre}
            if kind == 'Array':
                yield dict(spec, shape=[4, 2], chunk=None)
                yield dict(spec, shape=[0, 2], chunk=None)
            else:
                yield dict(spec, atom=[2], items=[{'n': 2, 'seed': 3}, {'n': 0, 'seed': 4}])
                yield dict(spec, atom=[], items=[])


def recopy_grid():
    for kind, rc, seed in itertools.product(['Array', 'Ragged'], ['shrink-regrow', 'grow', 'shrink'], (1, 2)):
        spec = {'f': 'copy', 'kind': kind, 'dt': {'t': 'int16', 'bo': '<>'[seed % 2]}, 'seed': seed, 'dtarg': None, 'meta': None, 'mode': 'r', 'mut': None, 'side': 'src', 'recopy': rc}
        if kind == 'Array':
            yield dict(spec, shape=[4, 2], chunk=None)
            yield dict(spec, shape=[5], chunk=2)
        else:
            yield dict(spec, atom=[], items=[{'n': 2, 'seed': 3}, {'n': 1, 'seed': 4}, {'n': 1, 'seed': 5}])
            yield dict(spec, atom=[2], items=[{'n': 1, 'seed': 3}, {'n': 0, 'seed': 4}, {'n': 2, 'seed': 5}])


def spelling_grid():
    for kind, sp, ow, aspath, ct in itertools.product(['Array', 'Ragged'], SPELLINGS, [False, True], [False, True], ['gz', 'xz']):
        yield {'f': 'archive-spelling', 'kind': kind, 'spelling': sp, 'ow': ow, 'aspath': aspath, 'ct': ct}


def task_grid(ctx, col, shard):
    enum_search(ctx, col, (s for i, s in enumerate(spelling_grid()) if i % NSHARDS == shard), lambda s: execute(ctx, s))
    if shard == 0:
        enum_search(ctx, col, pre_grid(), lambda s: execute(ctx, s))
        enum_search(ctx, col, recopy_grid(), lambda s: execute(ctx, s))
    enum_search(ctx, col, (s for i, s in enumerate(grid()) if i % NSHARDS == shard), lambda s: execute(ctx, s))


def task_random(ctx, col, shard, n):
    hyp_search(ctx, col, st_copy(), lambda s: execute(ctx, s), shard_seed(ctx, shard), n)


def tasks(ctx):
    t = []
    for sh in range(NSHARDS):
        t.append((task_grid, dict(shard=sh)))
        t.append((task_random, dict(shard=sh, n=ctx.pick(300, 2000))))
    return t
