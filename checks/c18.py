"""C18 - inconsistent or invalid array descriptions are rejected at open time.

Complete single-field corruption matrix of a valid descriptor (every key removed
/ retyped / set to each invalid token class, data file length off by enumerated
amounts, numtype swapped for another item size) x array kinds {1-D, N-D, empty,
ragged values, ragged indices}: Array(), RaggedArray(), darr.open() must raise;
delete/truncate by path must raise TypeError and leave the snapshot unchanged.
Hypothesis adds multi-field mutated descriptors under the invariant 'if it opens,
the independent decoder accepts the directory and agrees with what the handle
reads'.
"""
import os, json, itertools, shutil
import numpy as np
from hypothesis import strategies as st
from vlib.runner import Outcome, hyp_search, enum_search, shard_seed, NSHARDS
from vlib import rawdec
from vlib.snap import snapshot, diff

PROPERTY = 'C18'
LEVEL = 'exploration'
RULE = ("case = valid array of kind {1-D, N-D, first axis 0, ragged (corruption in values/ or indices/)} + one corruption: "
        "descriptor missing/empty/not JSON/non-dict; each required key removed or retyped (null, int, float, list, dict, bool); "
        "numtype/byteorder/arrayorder set to invalid tokens (unknown names, other case, NumPy aliases); shape scalar/string/nested/"
        "float/negative/null; data file missing or off by -all,-item,-1,+1,+item,+k; numtype of another item size. Enumerated "
        "completely; plus Hypothesis multi-field mutations with the invariant open => independent decoder agrees. Oracle: must "
        "raise; by-path delete/truncate raise TypeError with unchanged snapshot. Every case is non-trivial; distinct = canonical spec")
ASSUMPTIONS = ["bool entries in shape, an empty shape list and unparsable-but-string darrversion values are not claimed to be invalid",
               "a numtype swap to a type of the same item size yields a valid, consistent description and is not generated as a must-raise case"]
EXHAUSTIVE = "single-corruption matrix x 5 array kinds"
KINDS = ['1d', 'nd', 'empty', 'ragged-values', 'ragged-indices', 'zerotail', 'onebyte', 'ragged-onebyte-values']
MUST_HIT = ['form:Path'] + ['kind:' + k for k in KINDS] + ['corr:file', 'corr:key-removed', 'corr:key-retyped', 'corr:token', 'corr:shape', 'corr:size',
                                            'corr:itemsize-swap', 'corr:samelen', 'damage-keeps-timestamps', 'damaged-while-held-open', 'fuzz:opened-consistent', 'fuzz:rejected', 'bypath:delete', 'bypath:truncate']

RETYPES = [None, 123, 1.5, ['x'], {'a': 1}, True]
TOKENS = {
    'numtype': ['int9', 'bool', '<i4', 'Int32', 'INT32', 'float', 'double', 'uint', 'u8', 'longdouble', 'single', 'intp', '', 'int32 '],
    'byteorder': ['LITTLE', '<', '>', 'Little', 'native', '=', '', 'littleendian'],
    'arrayorder': ['c', 'f', 'K', 'A', 'CF', ''],
}
SHAPES = ['scalar', 'string', 'nested', 'float', 'negative', 'null', 'dict', 'str-entries', 'zero-last-axis', 'zero-extra-axis']
SIZES = ['missing', '-all', '-item', '-1', '+1', '+item', '+k']


def corruptions():
    for f in ('missing', 'emptyfile', 'notjson', 'truncated-json', 'nondict-list', 'nondict-num', 'nondict-str', 'nondict-null'):
        yield {'c': 'file', 'how': f}
    for k in ('numtype', 'shape', 'arrayorder', 'byteorder', 'darrobject'):
        for ver in ('99.1.0', '1.0.0', '0.0.1'):
            yield {'c': 'key-removed', 'key': k, 'ver': ver}
            yield {'c': 'token', 'key': k, 'v': TOKENS[k][0], 'ver': ver} if k in TOKENS else {'c': 'key-retyped', 'key': k, 'to': 0, 'ver': ver}
    for k in ('numtype', 'shape', 'arrayorder', 'darrversion', 'byteorder', 'darrobject'):
        yield {'c': 'key-removed', 'key': k}
        for i, _ in enumerate(RETYPES):
            yield {'c': 'key-retyped', 'key': k, 'to': i}
    for k, toks in TOKENS.items():
        for t in toks:
            yield {'c': 'token', 'key': k, 'v': t}
    for s in SHAPES:
        yield {'c': 'shape', 'how': s}
    for s in SIZES:
        yield {'c': 'size', 'how': s}
    for d in ('bigger', 'smaller'):
        yield {'c': 'itemsize-swap', 'dir': d}
    for how in ('numtype-char', 'numtype-othersize', 'byteorder-word', 'arrayorder-char', 'shape-digit', 'keyname-char'):
        yield {'c': 'samelen', 'how': how}      # the descriptor text keeps its byte length (and, with keepmtime, its time stamp)


def make_valid(kind, d):
    """Create the array; return (top path, path of the sub-array directory that gets corrupted, is_ragged)."""
    import darr
    p = os.path.join(d, 'x.darr')
    if kind == '1d':
        darr.asarray(p, np.arange(6, dtype='int32') * 3)
        return p, p, False
    if kind == 'nd':
        darr.asarray(p, (np.arange(12, dtype='float64') * 0.5).reshape(2, 3, 2))
        return p, p, False
    if kind == 'empty':
        darr.asarray(p, np.zeros((0, 3), dtype='uint16'))
        return p, p, False
    if kind == 'zerotail':       # three rows without elements: an empty data file described by a shape whose FIRST axis is not 0
        darr.asarray(p, np.zeros((3, 0, 2), dtype='int32'), chunklen=1)
        return p, p, False
    if kind == 'onebyte':         # one-byte elements: the byte order is meaningless for the data, not for the validity of the description
        darr.asarray(p, (np.arange(6, dtype='int8') - 3).reshape(3, 2))
        return p, p, False
    if kind == 'ragged-onebyte-values':
        darr.asraggedarray(p, [[1, 2, 3], [4], [], [5, 6]], dtype='uint8', indextype='uint8')
        return p, os.path.join(p, 'values'), True
    darr.asraggedarray(p, [[1, 2, 3], [4], [], [5, 6]], dtype='int16')
    return p, os.path.join(p, 'values' if kind == 'ragged-values' else 'indices'), True


def apply_corruption(corr, sub):
    """Mutates the directory `sub`; returns False when the corruption is not applicable."""
    dp = os.path.join(sub, 'arraydescription.json')
    vp = os.path.join(sub, 'arrayvalues.bin')
    with open(dp) as f:
        dj = json.load(f)
    c = corr['c']
    itemsize = np.dtype(dj['numtype']).itemsize
    if c == 'samelen':
        with open(dp) as f:
            txt = f.read()
        nt = dj['numtype']
        how = corr['how']
        if how == 'numtype-char':
            new = txt.replace(f'"{nt}"', f'"{nt[:-1]}x"')
        elif how == 'numtype-othersize':
            other = {'int32': 'int64', 'int16': 'int64', 'uint16': 'uint64', 'float64': 'float32', 'int64': 'int32'}.get(nt)
            if other is None or os.path.getsize(vp) == 0:
                return False
            new = txt.replace(f'"{nt}"', f'"{other}"')
        elif how == 'byteorder-word':
            new = txt.replace('"little"', '"middle"').replace('"big"', '"bog"')
        elif how == 'arrayorder-char':
            new = txt.replace('"arrayorder": "C"', '"arrayorder": "X"')
        elif how == 'shape-digit':
            if os.path.getsize(vp) == 0:
                return False
            first = str(dj['shape'][0])
            i = txt.index('"shape"')
            j = txt.index(first, i)
            new = txt[:j] + str((int(first[0]) % 9) + 1) + txt[j + 1:]
        else:
            new = txt.replace('"shape"', '"shapx"')
        if new == txt or len(new.encode()) != len(txt.encode()):
            return False
        with open(dp, 'w') as f:
            f.write(new)
        return True
    if c == 'file':
        how = corr['how']
        if how == 'missing':
            os.remove(dp)
        else:
            txt = {'emptyfile': '', 'notjson': '{numtype: int32', 'truncated-json': json.dumps(dj)[:-7], 'nondict-list': json.dumps(list(dj.items())),
                   'nondict-num': '5', 'nondict-str': '"int32"', 'nondict-null': 'null'}[how]
            with open(dp, 'w') as f:
                f.write(txt)
        return True
    if c == 'key-removed':
        if corr['key'] not in dj:
            return False
        del dj[corr['key']]
    elif c == 'key-retyped':
        dj[corr['key']] = RETYPES[corr['to']]
    elif c == 'token':
        dj[corr['key']] = corr['v']
    elif c == 'shape':
        shp = dj['shape']
        n = 1
        for x in shp:
            n *= x
        how = corr['how']
        if how == 'negative':
            if len(shp) < 2 or n == 0:
                dj['shape'] = [-shp[0]] + shp[1:] if shp[0] else [-1] + shp[1:]
            else:
                dj['shape'] = [-shp[0], -shp[1]] + shp[2:]      # product still matches the file
        elif how in ('zero-last-axis', 'zero-extra-axis'):
            if n == 0:
                return False      # an empty data file is consistent with any shape that has a zero extent
            dj['shape'] = (shp[:-1] + [0]) if how == 'zero-last-axis' and len(shp) > 1 else shp + [0]
        else:
            dj['shape'] = {'scalar': n, 'string': str(shp), 'nested': [shp], 'float': [float(x) for x in shp], 'null': None,
                           'dict': {'0': shp[0]}, 'str-entries': [str(x) for x in shp]}[how]
    elif c == 'size':
        how = corr['how']
        data = open(vp, 'rb').read()
        if how == 'missing':
            os.remove(vp)
            return True
        if how in ('-all', '-item', '-1') and len(data) == 0:
            return False
        new = {'-all': b'', '-item': data[:-itemsize], '-1': data[:-1], '+1': data + b'\x00', '+item': data + b'\x01' * itemsize,
               '+k': data + b'\x02' * (itemsize // 2 + 1 if itemsize > 2 else 3)}[how]
        if how == '-all' and len(data) == 0:
            return False
        with open(vp, 'wb') as f:
            f.write(new)
        return True
    elif c == 'itemsize-swap':
        n = os.path.getsize(vp)
        if n == 0:
            return False     # every item size is consistent with an empty file
        order = ['int8', 'int16', 'int32', 'int64'] if dj['numtype'].startswith('int') else \
            ['uint8', 'uint16', 'uint32', 'uint64'] if dj['numtype'].startswith('uint') else ['float16', 'float32', 'float64', 'complex128']
        i = order.index(dj['numtype'])
        j = i + 1 if corr['dir'] == 'bigger' else i - 1
        if not 0 <= j < len(order):
            j = i - 1 if corr['dir'] == 'bigger' else i + 1
        dj['numtype'] = order[j]
    if corr.get('ver') and corr.get('key') != 'darrversion' and 'darrversion' in dj:
        # the (otherwise invalid) description also claims to come from a newer / an older release of the library - which by itself
        # is accepted, with a warning: it must not make the library more tolerant about anything else
        dj['darrversion'] = corr['ver']
    with open(dp, 'w') as f:
        json.dump(dj, f)
    return True


def must_raise(out, tag, fn, what):
    try:
        r = fn()
    except Exception:
        return True
    out.viol('invalid-description-accepted', tag, f'{what} returned {type(r).__name__} instead of raising')
    return False


def execute(ctx, spec):
    import darr
    out = Outcome()
    if spec.get('fuzz') == 'bytes':
        return _exec_bytes(ctx, spec)
    if spec.get('fuzz'):
        return _exec_fuzz(ctx, spec)
    kind, corr = spec['kind'], spec['corr']
    with ctx.scratch() as d:
        top, sub, ragged = make_valid(kind, d)
        if corr['c'] in ('key-removed', 'key-retyped') and corr['key'] == 'darrobject' and ragged:
            sub = top      # the darrobject key that matters for darr.open is the top-level one
        # the process has used the valid array before it is damaged (anything remembered from then must not vouch for it now)
        dpath, vpath = os.path.join(sub, 'arraydescription.json'), os.path.join(sub, 'arrayvalues.bin')
        stamps = {p_: os.stat(p_) for p_ in (dpath, vpath) if os.path.exists(p_)}
        warm = darr.RaggedArray(top) if ragged else darr.Array(top)
        warm[0] if len(warm) else None
        warm = None
        holder = cm = it_ = None
        wo = spec.get('whileopen')
        if wo and not (corr['c'] in ('token', 'key-removed', 'shape', 'samelen') or (corr['c'] == 'size' and corr['how'].startswith('+'))):
            wo = None       # (a held-open data file is only ever lengthened or left alone here, never cut under its map)
        if wo:
            # a read-write handle made while the directory was still valid holds the array open during what follows
            out.cls('damaged-while-held-open')
            holder = darr.RaggedArray(top, accessmode='r+') if ragged else darr.Array(top, accessmode='r+')
            if wo == 'ctx' or not len(holder):
                cm = holder.open_arrays() if ragged else holder.open_array()
                cm.__enter__()
            else:
                it_ = holder.iter_arrays() if ragged else holder.iterchunks(chunklen=1)
                next(it_)
        if not apply_corruption(corr, sub):
            out.nontrivial = False
            if cm is not None:
                cm.__exit__(None, None, None)
            return out
        if spec.get('keepmtime'):
            out.cls('damage-keeps-timestamps')
            for p_, st_ in stamps.items():
                if os.path.exists(p_):
                    os.utime(p_, ns=(st_.st_atime_ns, st_.st_mtime_ns))
        out.cls('kind:' + kind, 'corr:' + corr['c'])
        tag = f"{corr['c']}:{corr.get('key', corr.get('how', corr.get('dir', '')))}" + (f":{corr['v']}" if corr['c'] == 'token' else '') + \
              (f":{type(RETYPES[corr['to']]).__name__}" if corr['c'] == 'key-retyped' else '')
        only_open = corr['c'] in ('key-removed', 'key-retyped') and corr['key'] == 'darrobject'
        before = snapshot(d)
        import pathlib
        if corr.get('to', 0) % 2 or corr.get('how', '') in ('+1', 'missing', 'notjson', 'negative') or corr.get('v', '') in ('uint', 'LITTLE', 'c'):
            top, sub = pathlib.Path(top), pathlib.Path(sub)       # the by-path entry points take str and Path alike
            out.cls('form:Path')
        if not only_open:
            for mode in ('r', 'r+'):       # read-write opening must not 'repair' the mismatch either (NumPy pads short files)
                if ragged:
                    must_raise(out, f'RaggedArray:{mode}:{tag}', lambda: darr.RaggedArray(top, accessmode=mode), f'RaggedArray(path, {mode!r})')
                    must_raise(out, f'Array(sub):{mode}:{tag}', lambda: darr.Array(sub, accessmode=mode), f'Array(subarray path, {mode!r})')
                else:
                    must_raise(out, f'Array:{mode}:{tag}', lambda: darr.Array(top, accessmode=mode), f'Array(path, {mode!r})')
                if snapshot(d) != before:
                    out.viol('open-attempt-changed-files', f'{mode}:{tag}', '; '.join(diff(before, snapshot(d))))
                    return out
        must_raise(out, f'open:{tag}', lambda: darr.open(top), 'darr.open(path)')
        if not only_open:
            calls = [('delete', (lambda: darr.delete_raggedarray(top)) if ragged else (lambda: darr.delete_array(top))),
                     ('truncate', (lambda: darr.truncate_raggedarray(top, 1)) if ragged else (lambda: darr.truncate_array(top, 1)))]
            for nm, fn in calls:
                out.cls('bypath:' + nm)
                try:
                    fn()
                    out.viol('bypath-accepted', f'{nm}:{tag}', f'{nm} by path did not raise')
                except TypeError:
                    pass
                except Exception as e:
                    out.viol('bypath-wrong-exception', f'{nm}:{tag}', f'{type(e).__name__}: {e}')
                after = snapshot(d)
                if after != before:
                    out.viol('bypath-changed-files', f'{nm}:{tag}', '; '.join(diff(before, after)))
                    break
        try:
            if it_ is not None:
                it_.close()
            if cm is not None:
                cm.__exit__(None, None, None)
        except Exception:
            pass            # leaving a context whose directory was damaged meanwhile may fail; not part of C18
        holder = None
    return out


# ------------------------------------------------------------------ multi-field fuzz with the invariant oracle
JSONVALS = st.one_of(st.none(), st.booleans(), st.integers(-3, 40), st.floats(allow_nan=False, allow_infinity=False, width=16),
                     st.sampled_from(['int32', 'int64', 'float64', 'uint8', 'int16', 'complex64', 'little', 'big', 'C', 'F', 'Array', 'RaggedArray', '1.0', 'x']),
                     st.lists(st.integers(-2, 7), max_size=4))


@st.composite
def st_fuzz(draw):
    muts = draw(st.lists(st.tuples(st.sampled_from(['numtype', 'shape', 'arrayorder', 'darrversion', 'byteorder', 'darrobject', 'extra']),
                                   st.one_of(st.just('__del__'), JSONVALS)).map(list), min_size=1, max_size=3))
    return {'fuzz': True, 'kind': draw(st.sampled_from(['1d', 'nd', 'empty'])), 'muts': muts, 'grow': draw(st.integers(-9, 9))}


def _exec_fuzz(ctx, spec):
    import darr
    out = Outcome()
    with ctx.scratch() as d:
        top, sub, _ = make_valid(spec['kind'], d)
        dp = os.path.join(sub, 'arraydescription.json')
        vp = os.path.join(sub, 'arrayvalues.bin')
        dj = json.load(open(dp))
        for k, v in spec['muts']:
            if v == '__del__':
                dj.pop(k, None)
            else:
                dj[k] = v
        json.dump(dj, open(dp, 'w'))
        g = spec['grow']
        data = open(vp, 'rb').read()
        data = data[:g] if g < 0 else data + b'\x07' * g
        open(vp, 'wb').write(data)
        try:
            a = darr.Array(top)
        except Exception:
            out.cls('fuzz:rejected')
            return out
        # it opened: then the files must be a well-formed array and the handle must read exactly what they say
        try:
            arr, _ = rawdec.decode_array(top, require_readme=False, require_object=False)
        except rawdec.FormatError as e:
            out.viol('opened-invalid-description', 'fuzz', f'Array() accepted a directory the format does not allow: {e}; descriptor={dj}')
            return out
        got = a[...]
        if np.dtype(got.dtype).str != arr.dtype.str or got.shape != arr.shape or got.tobytes() != arr.tobytes():
            out.viol('opened-reads-differently', 'fuzz', f'handle {got.dtype.str}{got.shape} vs files {arr.dtype.str}{arr.shape}')
        out.cls('fuzz:opened-consistent')
    return out


def _exec_bytes(ctx, spec):
    """Plain replay of an input found by the atheris campaign (raw descriptor bytes)."""
    import darr
    out = Outcome()
    shapes = (((6,), 'int32'), ((2, 3, 2), 'float64'), ((0, 3), 'uint16'))
    shape, dt = shapes[spec['kind'] % 3]
    with ctx.scratch() as d:
        p = os.path.join(d, 'k.darr')
        darr.asarray(p, (np.arange(int(np.prod(shape)), dtype=dt) * 3 + 1).reshape(shape))
        vp = os.path.join(p, 'arrayvalues.bin')
        orig = open(vp, 'rb').read()
        open(os.path.join(p, 'arraydescription.json'), 'wb').write(bytes.fromhex(spec['desc_hex']))
        g = spec['grow']
        open(vp, 'wb').write(orig[:g] if g < 0 else orig + b'\x07' * g)
        try:
            a = darr.Array(p)
        except Exception:
            out.cls('fuzz:rejected')
            return out
        try:
            arr, _ = rawdec.decode_array(p, require_readme=False, require_object=False)
        except rawdec.FormatError as e:
            out.viol('opened-invalid-description', 'fuzz:bytes', f'Array() accepted descriptor bytes {bytes.fromhex(spec["desc_hex"])[:200]!r}: {e}')
            return out
        got = a[...]
        if np.dtype(got.dtype).str != arr.dtype.str or got.shape != arr.shape or got.tobytes() != arr.tobytes():
            out.viol('opened-reads-differently', 'fuzz:bytes', 'handle reads differently from the files')
        out.cls('fuzz:opened-consistent')
    return out


def task_atheris(ctx, col, runs):
    """Coverage-guided campaign on the raw descriptor bytes (thorough tier)."""
    from vlib.fuzzdrive import run_atheris
    from vlib.runner import judge
    import json as _json
    valid = [_json.dumps({'numtype': t, 'byteorder': 'little', 'shape': sh, 'arrayorder': 'C', 'darrversion': '0.1', 'darrobject': 'Array'}, indent=4).encode()
             for t, sh in (('int32', [6]), ('float64', [2, 3, 2]), ('uint16', [0, 3]))]
    seeds = [bytes([i, 9]) + v for i, v in enumerate(valid)]
    tokens = ['numtype', 'byteorder', 'shape', 'arrayorder', 'darrversion', 'darrobject', 'little', 'big', 'int32', 'float64', 'uint16', 'int8', 'uint8',
              'float32', 'complex64', '"C"', '"F"', '[', ']', '{', '}', ':', ',', '-', '0', '1', '2', '3', '6', '12', 'null', 'true', '1.0', '1e1', 'Array']
    r = run_atheris(ctx, 'c18', runs, seeds, tokens, max_len=300)
    col.counters['atheris_executions'] += r['executed']
    col.evaluations += r['executed']
    if not r['available']:
        col.notes.append(r['note'])
        col.counters['atheris_unavailable'] += 1
        return
    if r['note']:
        col.notes.append(r['note'])
    if r['finding']:
        spec = dict(r['finding'])
        spec.pop('why', None)
        out = execute(ctx, spec)
        for v in judge(ctx, col, spec, out):
            col.violation(spec, v)


def matrix():
    for kind in KINDS:
        for corr in corruptions():
            yield {'kind': kind, 'corr': corr}
            yield {'kind': kind, 'corr': corr, 'keepmtime': True}
            if corr['c'] in ('token', 'key-removed', 'shape', 'samelen') or (corr['c'] == 'size' and corr['how'].startswith('+')):
                yield {'kind': kind, 'corr': corr, 'whileopen': 'ctx'}
                yield {'kind': kind, 'corr': corr, 'whileopen': 'iter', 'keepmtime': True}


def task_matrix(ctx, col, shard):
    enum_search(ctx, col, (s for i, s in enumerate(matrix()) if i % NSHARDS == shard), lambda s: execute(ctx, s))


def task_fuzz(ctx, col, shard, n):
    hyp_search(ctx, col, st_fuzz(), lambda s: execute(ctx, s), shard_seed(ctx, shard), n)


def tasks(ctx):
    t = []
    for sh in range(NSHARDS):
        t.append((task_matrix, dict(shard=sh)))
        t.append((task_fuzz, dict(shard=sh, n=ctx.pick(800, 4000))))
    if ctx.thorough:
        t.append((task_atheris, dict(runs=1500000)))
    return t
