"""C04 - RaggedArray histories equal a list-of-arrays model and persist.

Model-based (vlib/rhist.py): every generated history is applied to the real
RaggedArray and to a Python list of ndarrays; after each step live and fresh
handles are compared with the model on len/narrays/atom/dtype/size, every ra[k]
for -len <= k < len, error classes for bad k, iter_arrays triples and the
stored index type.
"""
import itertools
from vlib.runner import Outcome, hyp_search, enum_search, shard_seed, NSHARDS
from vlib import rhist

PROPERTY = 'C04'
LEVEL = 'exploration'
RULE = ("case = creation (create_raggedarray | asraggedarray of 1-4 items; 13 types x 2 byte orders; atom rank 0-2; 7 index "
        "types; items as ndarray / other dtype / other layout / list; lengths incl. 0) + op records {append, iterappend(0-4 "
        "items, list|generator), truncate(index token, by object|str|Path), accessmode, reopen, iter_arrays(start,end,step) "
        "reads}; bounded-exhaustive over an 8-op alphabet from 3 start states + Hypothesis histories; oracle = list-of-"
        "ndarrays model on live and fresh handles; non-trivial = >=2 mutating ops and (a zero-length subarray or a "
        "non-default index type or atom rank >= 1); distinct = canonical spec")
ASSUMPTIONS = ["mutators are only issued in mode r+ here (read-only enforcement is C11)",
               "total values stay within the index type's range (overflow is a fault scenario of C10)",
               "asraggedarray is not called with an empty iterable (no dtype/atom could be inferred)",
               "bool / NumPy-integer truncate indices are not generated"]
EXHAUSTIVE = None
MUST_HIT = (['append-beyond-index-type', 'iterappend:manyitems', 'iterappend:from-self', 'iterappend:gen-sets-mode', 'iterappend:readcode-inside', 'append-fills-index-type-exactly', 'env:c-locale', 'ops-inside-open-context', 'trunc-removes-only-zero-length', 'trunc0-then-append', 'reopen-between-ops', 'zero-length-subarray', 'rejected-call',
             'how:create', 'how:as', 'iter_arrays:ok', 'iter_arrays:raises', 'iter_arrays:step!=1', 'nonnative',
             'atomrank:0', 'atomrank:1', 'atomrank:2'] + [f'indextype:{t}' for t in rhist.INDEXTYPES])

ALPHABET = [
    {'o': 'append', 'item': {'n': 2, 'seed': 21, 'form': 'nd'}},
    {'o': 'append', 'item': {'n': 0, 'seed': 22, 'form': 'nd'}},
    {'o': 'append', 'item': {'n': 1, 'seed': 23, 'form': 'otherdt', 'dt': {'t': 'float64', 'bo': '>'}}},
    {'o': 'iterappend', 'items': [{'n': 1, 'seed': 24, 'form': 'list'}, {'n': 0, 'seed': 25, 'form': 'nd'},
                                  {'n': 3, 'seed': 26, 'form': 'layout', 'layout': 'neg'}], 'gen': True},
    {'o': 'trunc', 'i': -1, 'by': 'obj'},
    {'o': 'trunc', 'i': 0, 'by': 'obj'},
    {'o': 'trunc', 'i': 'len', 'by': 'obj'},
    {'o': 'reopen', 'm': 'r+'},
]
STARTS = [
    {'how': 'create', 'dt': {'t': 'float64', 'bo': '<'}, 'atom': [], 'indextype': 'int64', 'meta': None, 'mode': 'r+', 'dtarg': True},
    {'how': 'as', 'dt': {'t': 'int32', 'bo': '>'}, 'atom': [], 'indextype': 'int32', 'meta': None, 'mode': 'r+', 'dtarg': True,
     'items': [{'n': 2, 'seed': 1, 'form': 'nd'}, {'n': 0, 'seed': 2, 'form': 'nd'}], 'gen': False},
    {'how': 'as', 'dt': {'t': 'complex64', 'bo': '<'}, 'atom': [2], 'indextype': 'uint8', 'meta': 'dict', 'mode': 'r+', 'dtarg': False,
     'items': [{'n': 1, 'seed': 3, 'form': 'nd'}, {'n': 3, 'seed': 4, 'form': 'nd'}], 'gen': True},
]


def nontrivial(out, run, spec):
    s = spec['start']
    return run.nmut >= 2 and ('zero-length-subarray' in out.classes or s['indextype'] != 'int64' or len(s['atom']) >= 1)


def execute(ctx, spec):
    if spec.get('env'):          # a case recorded from a child interpreter under another environment (replay path)
        from vlib import envrun
        return envrun.execute_in_env(ctx, 'checks.c04', spec)
    out, run = rhist.run_ragged_history(ctx, spec, ('model',))
    out.nontrivial = nontrivial(out, run, spec)
    return out


def fixed_specs():
    """Index types filled to exactly their largest value, shrunk and filled again."""
    for it in ('int8', 'uint8', 'int16', 'uint16'):
        for atom in ([], [2]):
            start = {'how': 'as', 'dt': {'t': 'int16', 'bo': '<'}, 'atom': atom, 'indextype': it, 'meta': None, 'mode': 'r+', 'dtarg': True, 'gen': False,
                     'items': [{'n': 3, 'seed': 1, 'form': 'nd'}, {'n': 0, 'seed': 2, 'form': 'nd'}]}
            yield {'start': start, 'ops': [{'o': 'fillmax', 'seed': 3}, {'o': 'read', 'triples': [[-1, None, 1]]}, {'o': 'trunc', 'i': -1, 'by': 'obj'},
                                            {'o': 'append', 'item': {'n': 2, 'seed': 4, 'form': 'nd'}}, {'o': 'fillmax', 'seed': 5}, {'o': 'reopen', 'm': 'r+'},
                                            {'o': 'append', 'item': {'n': 0, 'seed': 6, 'form': 'nd'}}]}
            # more subarrays than the index type has values, nearly all of them without rows
            yield {'start': start, 'ops': [{'o': 'iterappend-x', 'style': 'many-empties', 'n': 300, 'seed': 7}, {'o': 'read', 'triples': [[0, None, 7], [-3, None, 1]]},
                                            {'o': 'append', 'item': {'n': 0, 'seed': 8, 'form': 'nd'}}, {'o': 'append', 'item': {'n': 2, 'seed': 9, 'form': 'nd'}},
                                            {'o': 'reopen', 'm': 'r+'}, {'o': 'iterappend-x', 'style': 'many-empties', 'n': 130, 'seed': 10}, {'o': 'trunc', 'i': 200, 'by': 'obj'}]}
            for style in ('append', 'iter', 'iter-gen', 'iter-many', 'iter-ndarray'):
                for over in (1, 130):
                    # an append that does not fit the index type, then the array is used on (truncated, appended to, filled exactly)
                    yield {'start': start, 'ops': [{'o': 'append', 'item': {'n': 100, 'seed': 7, 'form': 'nd'}}, {'o': 'overfill', 'style': style, 'over': over, 'seed': 8},
                                                    {'o': 'read', 'triples': [[0, None, 1]]}, {'o': 'append', 'item': {'n': 1, 'seed': 9, 'form': 'nd'}},
                                                    {'o': 'overfill', 'style': 'iter-gen', 'over': 2, 'seed': 10}, {'o': 'trunc', 'i': 1, 'by': 'obj'},
                                                    {'o': 'fillmax', 'seed': 11}, {'o': 'overfill', 'style': style, 'over': over, 'seed': 12}, {'o': 'reopen', 'm': 'r+'}]}


def long_specs():
    """More than 4096 (and 127 / 255) subarrays in one array: every k at the marks, iter_arrays with steps that do not divide 4096."""
    start = {'how': 'as', 'dt': {'t': 'uint8', 'bo': '<'}, 'atom': [], 'indextype': 'int32', 'meta': None, 'mode': 'r+', 'dtarg': True, 'gen': False,
             'items': [{'n': 1, 'seed': 1, 'form': 'nd'}]}
    reads = {'o': 'read', 'triples': [[0, None, 3], [1, None, 5], [0, None, 7], [4090, 4110, 1], [0, None, 4096], [5, 5000, 1000], [4100, 0, -3]]}
    yield {'start': start, 'ops': [{'o': 'iterappend-x', 'style': 'manyitems', 'n': 5000, 'seed': 2}, reads, {'o': 'trunc', 'i': 4097, 'by': 'obj'}, reads,
                                    {'o': 'iterappend-x', 'style': 'from-self', 'n': 0, 'seed': 3}]}
    for n_ in (130, 300):
        yield {'start': dict(start, indextype='int64', atom=[2]), 'lazy': True,
               'ops': [{'o': 'iterappend-x', 'style': 'manyitems', 'n': n_, 'seed': 4}, {'o': 'read', 'triples': [[-1, None, 1], [0, None, 3]], 'lo': True},
                       {'o': 'iterappend-x', 'style': 'gen-sets-mode', 'n': 0, 'seed': 5}, {'o': 'iterappend-x', 'style': 'readcode-inside', 'n': 0, 'seed': 6}]}


def task_fixed(ctx, col):
    enum_search(ctx, col, long_specs(), lambda s: execute(ctx, s))
    enum_search(ctx, col, fixed_specs(), lambda s: execute(ctx, s))
    # a sample of histories in a child interpreter whose default text encoding is ASCII (README and JSON files are written there too)
    from vlib import envrun
    from vlib.runner import hyp_collect
    envrun.run_specs(ctx, col, 'checks.c04', list(fixed_specs())[:2] + hyp_collect(rhist.st_ragged_history(max_ops=6), shard_seed(ctx, 79), ctx.pick(25, 400)), 'c-locale')


def task_big(ctx, col, shard):
    from vlib.runner import NSHARDS as _N
    enum_search(ctx, col, (s for i, s in enumerate(rhist.big_item_specs()) if i % _N == shard), lambda s: execute(ctx, s))


def enum_specs(L):
    for start in STARTS:
        for n in range(1, L + 1):
            for ops in itertools.product(range(len(ALPHABET)), repeat=n):
                yield {'start': start, 'ops': [ALPHABET[i] for i in ops]}


def task_enum(ctx, col, shard, L):
    specs = (s for i, s in enumerate(enum_specs(L)) if i % NSHARDS == shard)
    enum_search(ctx, col, specs, lambda s: execute(ctx, s))


def task_random(ctx, col, shard, n, max_ops):
    hyp_search(ctx, col, rhist.st_ragged_history(max_ops=max_ops), lambda s: execute(ctx, s), shard_seed(ctx, shard), n)
    # grow / shrink / regrow on one handle, the live handle being read only now and then
    hyp_search(ctx, col, rhist.st_growth_history(max_ops=max_ops + 4), lambda s: execute(ctx, s), shard_seed(ctx, shard) + 11, max(10, n // 3))


def tasks(ctx):
    global EXHAUSTIVE
    L = ctx.pick(3, 4)
    EXHAUSTIVE = f"all op sequences of length <= {L} over the 8-op alphabet from 3 start states"
    t = [(task_fixed, {})]
    for sh in range(NSHARDS):
        t.append((task_enum, dict(shard=sh, L=L)))
        t.append((task_big, dict(shard=sh)))
        t.append((task_random, dict(shard=sh, n=ctx.pick(80, 1300), max_ops=ctx.pick(8, 25))))
    return t
