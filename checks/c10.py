"""C10 - a failed RaggedArray append leaves exactly the completed subarrays.

F-iter: generated start states x items x failure position x failure kind
{iterable raises, wrong atom, wrong rank, unconvertible item, index overflow of a
small index type} through append and iterappend.  F-fsize: growth of the values
file or of the indices file is refused at enumerated byte offsets (RLIMIT_FSIZE
in a forked child).  Afterwards: the call raised, RaggedArray(path) opens, the
independent decoder finds a well-formed directory (C05), and the subarrays are
the original ones followed by those appended completely before the failure.
"""
import os, shutil, itertools
import numpy as np
from hypothesis import strategies as st
from vlib.runner import Outcome, hyp_search, enum_search, shard_seed, NSHARDS, HarnessError
from vlib import gens, rawdec, faults
from vlib.gens import dt_of

PROPERTY = 'C10'
LEVEL = 'fault_enumeration'
RULE = ("F-iter case = (dtype x byte order, atom rank 0-2, index type, start items 0..3 incl. created-empty, n good items 0..5 with "
        "lengths 0..3, failure position 0..n, kind {raise, badatom, badrank, unconv, overflow}, via append|iterappend) by Hypothesis + "
        "a fixed grid; F-fsize case = (target file {values, indices} x regime {loud, silent} x n<=3 items x failing item p x limit "
        "offsets {boundary, +1, mid element/row, end-1}) enumerated completely; oracle = raised + opens + independent structural "
        "decode + subarrays == original + completed items + live == fresh; every case is non-trivial; distinct = canonical spec")
ASSUMPTIONS = ["RLIMIT_FSIZE stands in for a full file system and applies to every file: limits are >= 64 KB, so the start states make the "
               "targeted file the largest one (values: 64 KB of data; indices: 8192 one-element subarrays = 128 KB of index rows)",
               "overflow = the end index of an appended subarray does not fit the index type"]
EXHAUSTIVE = "the F-fsize grid for the values file and for the indices file"
KINDS = ['raise', 'badatom', 'badrank', 'unconv', 'overflow', 'numstr', 'bare-scalar', 'atomshaped']
MUST_HIT = ['iter:no-free-descriptors', 'iter:raises-non-Exception', 'iter:generator-switches-handle-to-r', 'overflow:end=max+1', 'iter:>1024-items-before-the-failure', 'iter:one-ndarray-as-iterable', 'iter:generator-whose-close-raises', 'iter:inside-open-context', 'fsize:refused-in-buffered-tail-of-big-item'] + ['iter:' + k for k in KINDS] + ['iter:append', 'iter:iterappend', 'iter:empty-start', 'iter:p=0', 'iter:p>0',
                                             'fsize:values', 'fsize:indices', 'fsize:loud', 'fsize:silent', 'fsize:mid-row', 'fsize:on-boundary']
IDXMAX = {'int8': 127, 'uint8': 255, 'int16': 32767}


class Boom(Exception):
    pass


class Halt(BaseException):
    """An application's own control-flow exception (not an Exception)."""


class Boom2(Exception):
    """An application exception that cannot be constructed from one string."""

    def __init__(self, code, where):
        super().__init__(code, where)
        self.code, self.where = code, where


def iter_exception(seed):
    """What the failing iterable raises: a plain exception, or one whose class needs several constructor arguments (re-wrapping
    it as type(e)(message) fails), the library's own AppendDataError, or (exc 7, 8, 9) what is not an Exception at all: KeyboardInterrupt -
    Ctrl-C during a long acquisition -, SystemExit, a BaseException subclass of the application."""
    import json
    if seed in (7, 8, 9):
        return [KeyboardInterrupt(), SystemExit(3), Halt('stop requested')][seed - 7]
    try:        # the library's own exception class, as a pipeline that appends to ANOTHER Darr array would let escape
        from darr.array import AppendDataError as _ADE
    except ImportError:
        _ADE = Boom
    if seed % 7 == 6:
        return _ADE('a nested append to another array failed')
    seed = seed % 7
    return [Boom('iterable failed'), Boom2(3, 'sensor'), json.JSONDecodeError('bad value', '{"a": ]', 6),
            UnicodeDecodeError('utf-8', b'\xff\xfe', 0, 1, 'invalid start byte'), KeyError('missing'), StopAsyncIteration()][seed % 6]


def _badclose(seq, out):
    """A generator whose own clean-up fails when it is closed before it is exhausted (it is still suspended at a yield when the
    append it feeds fails on a bad item): a second failure while cleaning up after the first."""
    import sys
    out.cls('iter:generator-whose-close-raises')
    sys.unraisablehook = lambda *a: None       # (CPython reports the failing close of an abandoned generator on stderr)

    def gen():
        try:
            for c in seq:
                yield c
        except GeneratorExit:
            raise OSError('clean-up of the data source failed')
    return gen()


@st.composite
def st_iter(draw):
    kind = draw(st.sampled_from(KINDS))
    atom = [draw(st.integers(1, 3)) for _ in range(draw(st.integers(0, 2)))]
    n = draw(st.integers(0, 5))
    spec = {'f': 'iter', 'dt': draw(gens.st_dt()), 'atom': atom, 'seed': draw(st.integers(0, 2 ** 31)),
            'start': [draw(st.sampled_from([0, 1, 2, 3])) for _ in range(draw(st.integers(0, 3)))],
            'n': n, 'p': draw(st.integers(0, n)), 'kind': kind, 'lens': [draw(st.sampled_from([0, 1, 2, 3])) for _ in range(n)],
            'via': draw(st.sampled_from(['iterappend-gen', 'iterappend-list', 'append', 'iterappend-gen-badclose', 'iterappend-gen-sets-mode'])),
            'indextype': draw(st.sampled_from(['int64', 'int32', 'uint16', 'int8'])),
            'ctx': draw(st.sampled_from([None, None, 'open_arrays', 'iter_arrays'])), 'exc': draw(st.integers(0, 9))}
    if kind == 'overflow':
        spec['indextype'] = draw(st.sampled_from(sorted(IDXMAX)))
        spec['ovr'] = draw(st.sampled_from([2, 2, 3, 10]))
    return spec


def bad_item(kind, dt, atom):
    atom = tuple(atom)
    if kind == 'badatom':
        return np.zeros((2,) + atom[:-1] + ((atom[-1] + 1,) if atom else (2,)), dtype=dt)
    if kind == 'badrank':
        return np.zeros((2,) + atom + (2,), dtype=dt)
    if kind == 'unconv':
        return [['x', 'y']] if atom else ['x']
    if kind == 'atomshaped':
        return np.zeros(atom if atom else (), dtype=dt) if atom else 5.0     # exactly one row without the first axis
    if kind == 'numstr':
        return '12'          # converts to ONE number although len('12') == 2: not an item with a first axis
    if kind == 'bare-scalar':
        return 7
    raise ValueError(kind)


def check_after(out, tag, path, ra, want, dt, raised, must_raise=True):
    import darr
    if must_raise and not raised:
        out.viol('failed-append-did-not-raise', tag, 'the call returned normally')
        return
    try:
        fresh = darr.RaggedArray(path)
    except Exception as e:
        out.viol('unopenable-after-failed-append', tag, f'{type(e).__name__}: {e}')
        return
    try:
        subs, values, indices, top = rawdec.decode_ragged(path)
    except rawdec.FormatError as e:
        out.viol('malformed-after-failed-append', tag, str(e))
        return
    if len(subs) != len(want):
        out.viol('wrong-subarrays-after-failed-append', tag, f'{len(subs)} subarrays on disk, expected original + completed = {len(want)}')
        return
    # compare the tail exhaustively and the rest by concatenated bytes
    if b''.join(s.tobytes() for s in subs) != b''.join(np.ascontiguousarray(w).astype(dt).tobytes() for w in want) or \
            [len(s) for s in subs] != [len(w) for w in want]:
        out.viol('wrong-subarrays-after-failed-append', tag, 'subarray contents/lengths differ from original + completed items')
        return
    for hn, h in (('fresh', fresh), ('live', ra)):
        try:
            if len(h) != len(want) or h.size != sum(int(np.prod(np.shape(w))) for w in want):
                out.viol('handle-disagrees-after-failed-append', f'{tag}:{hn}', f'{hn}: len {len(h)} size {h.size}, expected len {len(want)}')
                return
            for k in ([0, len(want) - 1, len(want) // 2] if want else []):
                if h[k].tobytes() != np.ascontiguousarray(want[k]).astype(dt).tobytes():
                    out.viol('handle-disagrees-after-failed-append', f'{tag}:{hn}', f'{hn}: subarray {k} differs')
                    return
        except Exception as e:
            out.viol('handle-disagrees-after-failed-append', f'{tag}:{hn}', f'{type(e).__name__}: {e}')
            return


def _exec_iter(ctx, spec):
    import darr
    out = Outcome()
    dt = dt_of(spec['dt'])
    atom = tuple(spec['atom'])
    kind, via = spec['kind'], spec['via']
    n, p = spec['n'], spec['p']
    if via == 'append':
        n = min(n, 1)
        p = min(p, n)
    out.cls('iter:' + kind, 'iter:' + ('append' if via == 'append' else 'iterappend'), 'iter:p=0' if p == 0 else 'iter:p>0')
    with ctx.scratch() as d:
        path = os.path.join(d, 'r.darr')
        start_items = [gens.build_array(dt, (ln,) + atom, {'m': 'raw', 's': spec['seed'] + 100 + i}) for i, ln in enumerate(spec['start'])]
        lens = list(spec['lens'])
        if via == 'iterappend-ndarray':
            lens = [3] * n          # the rows of ONE ndarray are the subarrays: they all have the same length
        good = [gens.build_array(dt, (lens[i],) + atom, {'m': 'raw', 's': spec['seed'] + 1 + i}) for i in range(n)]
        nlong = spec.get('nlong', 0)
        if nlong and via != 'append':
            # more than a thousand subarrays are completed in the same call before it fails
            out.cls('iter:>1024-items-before-the-failure')
            good = [np.full((i % 2,) + atom, i % 100, dtype=dt) for i in range(nlong)] + good
            n, p = n + nlong, p + nlong
        itype = spec['indextype']
        if kind == 'overflow':
            # start so close to the limit of the index type that the failing item crosses it
            mx = IDXMAX[itype]
            used = sum(len(x) for x in good[:p])
            first = gens.build_array(dt, (mx - used - 1,) + atom, {'m': 'safe', 's': 5})
            start_items = [first]
            # the failing item ends at max+1 (the smallest end that does not fit), max+2 or well beyond
            nbad = spec.get('ovr', 3)
            bad = gens.build_array(dt, (nbad,) + atom, {'m': 'safe', 's': 6})
            out.cls(f'overflow:end=max+{nbad - 1}')
        elif kind != 'raise':
            bad = bad_item(kind, dt, atom)
        if start_items:
            ra = darr.asraggedarray(path, start_items, dtype=dt, indextype=itype, accessmode='r+')
        else:
            if spec['seed'] % 8 == 0:
                ra = darr.create_raggedarray(path, atom=atom, dtype=dt, indextype=itype, accessmode='r+')
            else:
                # same state, but without create_raggedarray's 160 MB of work buffers
                ra = darr.asraggedarray(path, [np.zeros((1,) + atom, dtype=dt)], dtype=dt, indextype=itype, accessmode='r+')
                darr.truncate_raggedarray(ra, 0)
            out.cls('iter:empty-start')
        done = good[:p]
        want = start_items + done
        tag = f"iter:{kind}:{'empty' if not start_items else 'nonempty'}-start:{'first' if p == 0 else 'later'}-item:{'append' if via == 'append' else 'iterappend'}"
        raised = None
        import contextlib
        stack = contextlib.ExitStack()
        if spec.get('ctx') and kind != 'overflow':
            # the failing call is issued while the arrays are held open, after the ragged array grew in that open period
            out.cls('iter:inside-open-context')
            if spec['ctx'] == 'open_arrays' or not start_items:
                stack.enter_context(ra.open_arrays())
            else:
                it0 = ra.iter_arrays()
                next(it0)
                stack.callback(it0.close)
            grown = gens.build_array(dt, (2,) + atom, {'m': 'raw', 's': spec['seed'] + 77})
            ra.append(grown)
            want = start_items + [grown] + done
            tag += ':in-context'
        try:
            if via == 'append':
                for g in done:
                    ra.append(g)
                if kind == 'raise':
                    ra.iterappend(faults.FailingIter([], iter_exception(spec.get('exc', spec['seed']))))
                else:
                    ra.append(bad)
            else:
                if kind == 'raise':
                    it = faults.FailingIter(list(done), iter_exception(spec.get('exc', spec['seed'])))
                    it = iter(it) if via in ('iterappend-gen', 'iterappend-gen-badclose') else it
                else:
                    seq = list(done) + [bad] + good[p:]
                    it = (c for c in seq) if via == 'iterappend-gen' else _badclose(seq, out) if via == 'iterappend-gen-badclose' else seq
                    if via == 'iterappend-gen-sets-mode':
                        # the generator switches the handle to read-only after its first item (the call began in r+), then goes on
                        out.cls('iter:generator-switches-handle-to-r')

                        def feed(seq=seq):
                            for j, x in enumerate(seq):
                                if j == 1:
                                    ra.accessmode = 'r'
                                yield x
                            ra.accessmode = 'r'
                        it = feed()
                    if via == 'iterappend-ndarray' and kind == 'overflow':
                        out.cls('iter:one-ndarray-as-iterable')
                        it = np.stack([np.asarray(x, dtype=dt) for x in seq])
                ra.iterappend(it)
        except BaseException as e:      # (the data source may raise KeyboardInterrupt / SystemExit / a BaseException subclass)
            raised = e
            if not isinstance(e, Exception):
                out.cls('iter:raises-non-Exception')
        finally:
            try:
                stack.close()
            except Exception as e:
                out.viol('context-exit-raised', tag, f'{type(e).__name__}: {e}')
        check_after(out, tag, path, ra, want, dt, raised)
    return out


# ------------------------------------------------------------------ F-fsize
_STATE = {}


def _start_state(ctx, target):
    """Build the (expensive) start state once per worker process; returns (dir, list of start items)."""
    import darr
    key = (ctx.root(), target)
    if key not in _STATE:
        p = os.path.join(ctx.root(), f'start_{target}')
        if os.path.exists(p):
            shutil.rmtree(p)
        if target == 'values':
            items = [(np.arange(8192, dtype='<i8') * 3 + 1)]                       # 64 KB of values, one index row
            darr.asraggedarray(p, items, dtype='<i8', accessmode='r+')
        else:
            items = [np.array([i % 100], dtype='int8') for i in range(8192)]       # 8 KB of values, 128 KB of index rows
            darr.asraggedarray(p, items, dtype='int8', accessmode='r+')
        _STATE[key] = (p, items)
    return _STATE[key]


def fsize_specs():
    for target in ('values', 'indices'):
        regimes = ('loud', 'silent', 'bigtail') if target == 'values' else ('silent',)
        for regime, n in itertools.product(regimes, (1, 2, 3)):
            offs = ('boundary', '+1', '+3', '+8', 'half', 'end-1') if target == 'values' else ('boundary', '+1', '+8', '+15', 'row')
            if regime == 'bigtail':
                offs = ('half', 'tail+8', 'tail+1000', 'end-100', 'end-1')
            for p in range(n):
                for off in offs:
                    for via in (['iterappend'] if n > 1 else ['append', 'iterappend']):
                        yield {'f': 'fsize', 'target': target, 'regime': regime, 'n': n, 'p': p, 'off': off, 'via': via}


def _exec_fsize(ctx, spec):
    import darr
    out = Outcome()
    target = spec['target']
    src, start_items = _start_state(ctx, target)
    out.cls('fsize:' + target, 'fsize:' + spec['regime'])
    if target == 'values':
        dt = np.dtype('<i8')
        lens = [4096] * spec['n'] if spec['regime'] == 'loud' else [9002] * spec['n'] if spec['regime'] == 'bigtail' else \
            [[24, 2, 62][i % 3] for i in range(spec['n'])]
        unit, base = 8, 8192 * 8
        bounds = [base]
        for ln in lens:
            bounds.append(bounds[-1] + ln * unit)
    else:
        dt = np.dtype('int8')
        lens = [[3, 0, 5][i % 3] for i in range(spec['n'])]
        unit, base = 16, 8192 * 16
        bounds = [base + 16 * i for i in range(spec['n'] + 1)]
    p = spec['p']
    b0, b1 = bounds[p], bounds[p + 1]
    tailstart = b1 - (b1 - b0) % 4096
    L = {'boundary': b0, '+1': b0 + 1, '+3': b0 + 3, '+8': b0 + 8, '+15': b0 + 15, 'half': b0 + (b1 - b0) // 2 + 4, 'end-1': b1 - 1, 'row': b1,
         'tail+8': tailstart + 8, 'tail+1000': tailstart + 1000, 'end-100': b1 - 100}[spec['off']]
    if spec['regime'] == 'bigtail':
        out.cls('fsize:refused-in-buffered-tail-of-big-item')
    if spec['off'] == 'row' and p + 1 >= spec['n']:
        out.nontrivial = False
        return out      # everything fits: no fault
    if spec['off'] in ('boundary', 'row'):
        out.cls('fsize:on-boundary')
    if target == 'indices' and spec['off'] in ('+1', '+8', '+15'):
        out.cls('fsize:mid-row')
    ndone = sum(1 for i in range(spec['n']) if bounds[i + 1] <= L)
    with ctx.scratch() as d:
        path = os.path.join(d, 'r.darr')
        shutil.copytree(src, path)
        ra = darr.RaggedArray(path, accessmode='r+')
        items = [((np.arange(ln, dtype='int64') + 1) * (3 + i) % 100).astype(dt) for i, ln in enumerate(lens)]
        out.cls('fsize:loud') if spec['regime'] == 'bigtail' else None
        want = start_items + items[:ndone]
        tag = f"fsize:{target}:{spec['regime']}:{'first' if p == 0 else 'later'}-item:{spec['off']}"

        def op():
            if spec['via'] == 'append':
                ra.append(items[0])
            else:
                ra.iterappend(x for x in items)

        def inspect(raised):
            o = Outcome()
            check_after(o, tag, path, ra, want, dt, raised, must_raise=ndone < spec['n'])
            return o.violations

        res, err = faults.run_with_fsize_limit(L, op, inspect)
        if err is not None and err in ('child killed by signal 11', 'child killed by signal 7'):
            # the scenario runs in a forked child precisely so that a crash of the interpreter is observed, not suffered:
            # reading the array after the failed append touched memory that is not backed by the file
            out.viol('interpreter-crash-after-failed-append', tag, err)
            return out
        if err is not None:
            raise HarnessError(err)
        out.violations.extend(res)
    return out


def _exec_emfile(ctx, spec):
    """The data source fails because the process has run out of file descriptors (it opens a file per subarray and keeps them),
    and none is free while the failed call cleans up."""
    import darr
    out = Outcome()
    out.cls('iter:raise', 'iter:iterappend', 'iter:no-free-descriptors')
    dt = dt_of(spec['dt'])
    atom = tuple(spec['atom'])
    with ctx.scratch() as d:
        path = os.path.join(d, 'r.darr')
        start_items = [gens.build_array(dt, (ln,) + atom, {'m': 'raw', 's': spec['seed'] + 50 + i}) for i, ln in enumerate(spec['start'])]
        if start_items:
            ra = darr.asraggedarray(path, start_items, dtype=dt, indextype=spec['indextype'], accessmode='r+')
        else:
            ra = darr.asraggedarray(path, [np.zeros((1,) + atom, dtype=dt)], dtype=dt, indextype=spec['indextype'], accessmode='r+')
            darr.truncate_raggedarray(ra, 0)
            out.cls('iter:empty-start')
        done = [gens.build_array(dt, (ln,) + atom, {'m': 'raw', 's': spec['seed'] + 1 + i}) for i, ln in enumerate(spec['lens'])]
        want = start_items + done
        tag = f"emfile:{'empty' if not start_items else 'nonempty'}-start:{'first' if not done else 'later'}-item"

        def op(exhaust):
            def src():
                for c in done:
                    yield c
                exhaust()
            if spec.get('ctx'):
                with ra.open_arrays():
                    ra.iterappend(src())
            else:
                ra.iterappend(src())

        def inspect(raised):
            o = Outcome()
            check_after(o, tag, path, ra, want, dt, raised)
            return o.violations
        res, err = faults.run_without_free_descriptors(op, inspect)
        if err is not None and err.startswith('child killed by signal'):
            out.viol('interpreter-crash-after-failed-append', tag, err)
            return out
        if err is not None:
            raise HarnessError(err)
        out.violations.extend(res)
    return out


def emfile_grid():
    for (t, bo), atom, itype in ((('int32', '<'), [], 'int64'), (('float64', '>'), [2], 'int16'), (('uint8', '<'), [1, 2], 'uint8')):
        for start in ([], [2, 0]):
            for lens in ([], [2], [1, 0, 3], [1] * 40):
                # (not inside the caller's own open_arrays() block: there the call cannot release a descriptor, and without one
                # nobody can rewrite a description - the unchanged tree leaves the array unreadable, which is recorded in DESIGN 8.7)
                yield {'f': 'emfile', 'dt': {'t': t, 'bo': bo}, 'atom': atom, 'indextype': itype, 'seed': 4, 'start': start, 'lens': lens, 'ctx': False}


def execute(ctx, spec):
    if spec['f'] == 'emfile':
        return _exec_emfile(ctx, spec)
    return _exec_iter(ctx, spec) if spec['f'] == 'iter' else _exec_fsize(ctx, spec)


def iter_grid():
    for (t, bo), atom, itype in (( ('int32', '<'), [], 'int64'), (('float64', '>'), [2], 'int16'), (('uint8', '<'), [1, 2], 'uint8')):
        for start in ([], [2, 0]):
            for n in range(0, 3):
                for p in range(0, n + 1):
                    for kind in KINDS:
                        for via in ('iterappend-gen', 'iterappend-list', 'append', 'iterappend-gen-badclose', 'iterappend-gen-sets-mode'):
                            if kind == 'overflow' and itype not in IDXMAX:
                                continue
                            yield {'f': 'iter', 'dt': {'t': t, 'bo': bo}, 'atom': atom, 'seed': 4, 'start': start, 'n': n, 'p': p, 'kind': kind,
                                   'lens': [2, 0, 1][:n], 'via': via, 'indextype': itype}
                            if kind == 'raise' and via != 'iterappend-gen-badclose':
                                for exc in range(10):       # every class of exception the data source may raise
                                    yield {'f': 'iter', 'dt': {'t': t, 'bo': bo}, 'atom': atom, 'seed': 4, 'start': start, 'n': n, 'p': p, 'kind': kind,
                                           'lens': [2, 0, 1][:n], 'via': via, 'indextype': itype, 'exc': exc}
                            if n <= 1 and kind != 'overflow':
                                yield {'f': 'iter', 'dt': {'t': t, 'bo': bo}, 'atom': atom, 'seed': 4, 'start': start, 'n': n, 'p': p, 'kind': kind,
                                       'lens': [2, 0, 1][:n], 'via': via, 'indextype': itype, 'ctx': ['open_arrays', 'iter_arrays'][(n + p) % 2]}


def long_grid():
    for (t, bo), atom, itype in ((('int16', '<'), [], 'int64'), (('float32', '>'), [2], 'int32')):
        for nlong in (1100, 2100):
            for kind in ('raise', 'badatom', 'unconv'):
                for via in ('iterappend-gen', 'iterappend-list'):
                    for start in ([], [2, 0]):
                        yield {'f': 'iter', 'dt': {'t': t, 'bo': bo}, 'atom': atom, 'seed': 9, 'start': start, 'n': 2, 'p': 1, 'kind': kind,
                               'lens': [2, 1], 'via': via, 'indextype': itype, 'nlong': nlong}
    for itype in sorted(IDXMAX):
        for p in (0, 1, 2):
            for atom in ([], [2]):
                yield {'f': 'iter', 'dt': {'t': 'int32', 'bo': '<'}, 'atom': atom, 'seed': 3, 'start': [], 'n': 3, 'p': p, 'kind': 'overflow',
                       'lens': [3, 3, 3], 'via': 'iterappend-ndarray', 'indextype': itype}
                for ovr in (2, 3):
                    for via in ('append', 'iterappend-list', 'iterappend-gen'):
                        yield {'f': 'iter', 'dt': {'t': 'int16', 'bo': '>'}, 'atom': atom, 'seed': 3, 'start': [], 'n': 2, 'p': min(p, 2), 'kind': 'overflow',
                               'lens': [1, 2], 'via': via, 'indextype': itype, 'ovr': ovr}


def task_fsize(ctx, col, shard):
    enum_search(ctx, col, (s for i, s in enumerate(fsize_specs()) if i % NSHARDS == shard), lambda s: execute(ctx, s))


def task_itergrid(ctx, col, shard):
    enum_search(ctx, col, (s for i, s in enumerate(iter_grid()) if i % NSHARDS == shard), lambda s: execute(ctx, s))
    enum_search(ctx, col, (s for i, s in enumerate(long_grid()) if i % NSHARDS == shard), lambda s: execute(ctx, s))
    enum_search(ctx, col, (s for i, s in enumerate(emfile_grid()) if i % NSHARDS == shard), lambda s: execute(ctx, s))


def task_random(ctx, col, shard, n):
    hyp_search(ctx, col, st_iter(), lambda s: execute(ctx, s), shard_seed(ctx, shard), n)


def tasks(ctx):
    t = []
    for sh in range(NSHARDS):
        t.append((task_fsize, dict(shard=sh)))
        t.append((task_itergrid, dict(shard=sh)))
        t.append((task_random, dict(shard=sh, n=ctx.pick(60, 1000))))
    return t
