"""C02 - the on-disk format is self-describing.

Every completed step of generated histories (C03's operations plus metadata
changes and overwrite=True re-creation) is decoded from the files alone by
vlib/rawdec.py - which imports nothing from darr - and compared three ways:
NumPy model = Darr API = raw decode (dtype incl. byte order, shape, bytes).
The 13 types x 2 byte orders x {1-D, 3-D} table is enumerated completely.
"""
import itertools
from hypothesis import strategies as st
from vlib.runner import Outcome, hyp_search, enum_search, shard_seed, NSHARDS
from vlib import hist, gens

PROPERTY = 'C02'
LEVEL = 'exploration'
RULE = ("case = history (start state + ops incl. metadata set/delete and overwrite=True re-creation with another "
        "dtype/shape); after every completed step an independent decoder reads arraydescription.json + arrayvalues.bin "
        "and must agree with both the NumPy model and the Darr API (three-way), file length = prod(shape)*itemsize, "
        "required JSON keys, README.txt present; plus the complete type x byte order x {1-D,3-D} table with distinct "
        "values; non-trivial = >=2 mutating steps of different kinds, or non-native byte order, or rank >= 2")
ASSUMPTIONS = ["the decoder implements the format as documented in README.txt/docs: headerless C-order values; numtype, byteorder, shape, arrayorder from the JSON file",
               "np.frombuffer is trusted to reinterpret bytes; first/last element are cross-checked with struct.unpack"]
EXHAUSTIVE = "13 numeric types x 2 byte orders x shapes (7,), (3,2,4), (0,3) with pairwise distinct values, followed by append + truncate"
MUST_HIT = ['overwrite-recreate', 'trunc0-then-append', 'nonnative', 'rank>=2', 'meta-created', 'meta-deleted', 'append-to-empty']


def execute(ctx, spec):
    out, run = hist.run_array_history(ctx, spec, ('raw',))
    kinds = set(run.kinds) - {'reopen', 'mode'}
    out.nontrivial = len(kinds) >= 2 or 'nonnative' in out.classes or 'rank>=2' in out.classes
    return out


def table_specs():
    for t, bo, shape in itertools.product(gens.NUMTYPES, gens.BYTEORDERS, ([7], [3, 2, 4], [0, 3])):
        yield {'start': {'dt': {'t': t, 'bo': bo}, 'shape': shape, 'seed': 5, 'how': 'asarray', 'mode': 'r+', 'meta': False,
                         'vals': 'dist'},
               'ops': [{'o': 'append', 'arg': {'k': 'rows', 'n': 2, 'seed': 3}},
                       {'o': 'trunc', 'i': -1, 'by': 'obj'},
                       {'o': 'meta', 'a': 'set', 'k': 'a'}]}


def task_table(ctx, col):
    enum_search(ctx, col, table_specs(), lambda s: execute(ctx, s))


def task_truncgrid(ctx, col, shard):
    enum_search(ctx, col, (s for i, s in enumerate(hist.trunc_grid_specs()) if i % NSHARDS == shard), lambda s: execute(ctx, s))
    enum_search(ctx, col, (s for i, s in enumerate(hist.zero_extent_specs()) if i % NSHARDS == shard), lambda s: execute(ctx, s))


def task_random(ctx, col, shard, n, max_ops):
    strat = hist.st_array_history(max_ops=max_ops, extra=('meta', 'meta', 'overwrite'))
    hyp_search(ctx, col, strat, lambda s: execute(ctx, s), shard_seed(ctx, shard), n)


def tasks(ctx):
    t = [(task_table, {})]
    for sh in range(NSHARDS):
        t.append((task_truncgrid, dict(shard=sh)))
        t.append((task_random, dict(shard=sh, n=ctx.pick(900, 2500), max_ops=ctx.pick(8, 25))))
    return t
