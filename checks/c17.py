"""C17 - a process crash at any point never makes Darr return wrong data.

Crash-point enumeration: each scenario (append, iterappend, iterappend whose
iterable fails - the recovery path -, truncate, metadata changes, on Array and
RaggedArray, empty and non-empty starts) is executed under sys.settrace; at every
line/return event inside Darr's own code the array directory is read back
through the OS, and every DISTINCT on-disk state is kept - it is exactly what
would survive the death of the process at that line (unflushed Python buffers
are correctly absent).  Between consecutive states torn writes are synthesised
for each file that changed.  Every materialised directory is then opened: it
must raise, or show a legitimate state (before, after, or original + a whole
number of the appended chunks/subarrays).  A sample of crash points is
cross-validated by really killing a forked child (os._exit) at that point.
"""
import os, sys, json, shutil, itertools
import numpy as np
from hypothesis import strategies as st
from vlib.runner import Outcome, hyp_search, enum_search, shard_seed, NSHARDS, HarnessError, DARR_SRC
from vlib import gens
from vlib.gens import dt_of
from vlib.snap import snapshot

PROPERTY = 'C17'
LEVEL = 'fault_enumeration'
RULE = ("scenario = (kind {Array 1-D, Array N-D, RaggedArray atom (), RaggedArray atom (n,)}, dtype x byte order, start {empty, "
        "non-empty}, operation {append, iterappend of k chunks, iterappend failing after j chunks, truncate to m, truncate to 0, "
        "metadata first key / change / last key removed}); fixed grid + Hypothesis-generated; per scenario every distinct on-disk "
        "state between two executed source lines of darr/ is materialised, plus torn variants (file emptied; old content + half / "
        "odd part of an appended tail; 1/4, 1/2, all-but-one-byte prefixes of rewritten text); oracle = open raises or shows a "
        "legitimate state; evaluations = materialised directories opened; non-trivial = every state other than the untouched start "
        "and the final state; distinct = (scenario, state content)")
ASSUMPTIONS = ["models death of the process (kernel state survives), not power loss with reordered write-back",
               "'shows' is taken at the level of returned data: Array dtype/shape/bytes, RaggedArray dtype/atom/len/every subarray, "
               "metadata dict; a RaggedArray whose values file still carries an orphaned tail between the two truncations of "
               "truncate_raggedarray returns the right subarrays and counts as legitimate (recorded as benign_orphan_tail)",
               "an exception raised when the metadata are accessed counts as 'raises' for metadata scenarios"]
EXHAUSTIVE = "all distinct line-granularity on-disk states of every enumerated scenario"
OPS = ['append', 'iterappend3', 'iterappend-fail1', 'trunc-k', 'trunc-0', 'meta-first', 'meta-change', 'meta-last', 'meta-update-mixed', 'meta-update-pairs',
       'append-darr', 'meta-pop-keep', 'meta-popdefault-keep', 'meta-del-keep', 'meta-popitem-keep']
MUST_HIT = ['kind:array1d', 'kind:arraynd', 'kind:ragged0', 'kind:ragged1', 'start:empty', 'start:nonempty', 'torn:emptied', 'torn:append-half',
            'torn:prefix', 'opened:legit', 'opened:raised', 'realkill:agrees'] + ['op:' + o for o in OPS]

DARRDIR = os.path.join(DARR_SRC, 'darr') + os.sep


class Boom(Exception):
    pass


# ------------------------------------------------------------------ building scenarios
def scenario_grid():
    for kind, dt in (('array1d', {'t': 'int32', 'bo': '<'}), ('arraynd', {'t': 'float64', 'bo': '>'}),
                     ('ragged0', {'t': 'int16', 'bo': '<'}), ('ragged1', {'t': 'float32', 'bo': '>'})):
        for start in ('empty', 'nonempty'):
            for op in OPS:
                if start == 'empty' and op in ('trunc-k', 'trunc-0'):
                    continue
                yield {'kind': kind, 'dt': dt, 'start': start, 'op': op, 'seed': 3, 'n0': 4, 'lens': [2, 1, 3]}
    # an operand of more than 10 MiB that is itself a Darr array, appended to an empty and to a non-empty array
    # (6 rows of 2.8 MB: 16.8 MB, more than 16 MiB) - as a Darr array and as a plain ndarray
    for start in ('empty', 'nonempty'):
        for operand in ('darr', 'ndarray'):
            yield {'kind': 'array1d', 'dt': {'t': 'float64', 'bo': '<'}, 'start': start, 'op': 'append-darr', 'seed': 5, 'n0': 1, 'lens': [1, 1, 1], 'big': 350000,
                   'operand': operand}


@st.composite
def st_scenario(draw):
    start = draw(st.sampled_from(['empty', 'nonempty']))
    ops = [o for o in OPS if not (start == 'empty' and o.startswith('trunc'))]
    return {'kind': draw(st.sampled_from(['array1d', 'arraynd', 'ragged0', 'ragged1'])), 'dt': draw(gens.st_dt()), 'start': start,
            'op': draw(st.sampled_from(ops)), 'seed': draw(st.integers(0, 2 ** 20)), 'n0': draw(st.integers(2, 6)),
            'lens': [draw(st.integers(0, 4)) for _ in range(3)]}


def _tail(kind):
    return {'array1d': (), 'arraynd': (2, 3), 'ragged0': (), 'ragged1': (2,)}[kind]


def _vals(dt, shape, seed):
    return gens.build_array(dt, shape, {'m': 'dist', 's': seed})


def build(spec, path):
    """Create the start state; return (handle, start model, op callable, list of legitimate models, view function)."""
    import darr
    kind, dt, tail = spec['kind'], dt_of(spec['dt']), _tail(spec['kind'])
    ragged = kind.startswith('ragged')
    n0 = spec['n0'] if spec['start'] == 'nonempty' else 0
    md0 = {'k0': 'v0', 'n': [1, 2]} if spec['op'].startswith('meta-') and spec['op'] != 'meta-first' else None
    if spec['op'] == 'meta-last':
        md0 = {'k0': 'v0'}
    chunks = [_vals(dt, (ln,) + tail, spec['seed'] + 10 + i) for i, ln in enumerate(spec['lens'])]
    if not ragged:
        start = _vals(dt, (n0,) + tail, spec['seed'])
        a = darr.asarray(path, start, accessmode='r+', metadata=md0)
        model0 = start

        def cat(k):
            return np.frombuffer(b''.join(x.tobytes() for x in [start] + chunks[:k]), dtype=dt).reshape((-1,) + tail)
    else:
        items = [_vals(dt, ((i * 2 + 1) % 4,) + tail, spec['seed'] + i) for i in range(n0)]
        if items:
            a = darr.asraggedarray(path, items, dtype=dt, accessmode='r+', metadata=md0)
        else:
            a = darr.asraggedarray(path, [np.zeros((1,) + tail, dtype=dt)], dtype=dt, accessmode='r+', metadata=md0)
            darr.truncate_raggedarray(a, 0)
        model0 = items

        def cat(k):
            return items + chunks[:k]
    op = spec['op']
    n = len(model0)
    if op == 'append':
        legit = [cat(0), cat(1)]
        fn = lambda: a.append(chunks[0])
    elif op == 'iterappend3':
        legit = [cat(k) for k in range(4)]
        fn = lambda: a.iterappend(c for c in chunks)
    elif op == 'iterappend-fail1':
        legit = [cat(0), cat(1)]

        def gen():
            yield chunks[0]
            raise Boom('iterable failed')

        def fn():
            try:
                a.iterappend(gen())
            except Exception:
                pass
    elif op in ('trunc-k', 'trunc-0'):
        k = n // 2 if op == 'trunc-k' else 0
        if k == 0 and op == 'trunc-k':
            k = 1 if n > 1 else 0
        legit = [model0, model0[:k]]
        tr = darr.truncate_raggedarray if ragged else darr.truncate_array
        fn = lambda: tr(a, k)
    elif op == 'meta-first':
        legit = [{}, {'first': [1, 'é']}]
        fn = lambda: a.metadata.__setitem__('first', [1, 'é'])
    elif op == 'meta-change':
        legit = [dict(md0), dict(md0, k0='changed', extra=1.5)]
        fn = lambda: a.metadata.update({'k0': 'changed', 'extra': 1.5})
    elif op == 'meta-last':
        legit = [dict(md0), {}]
        fn = lambda: a.metadata.pop('k0')
    elif op in ('meta-pop-keep', 'meta-popdefault-keep', 'meta-del-keep'):
        # a key is removed while another one stays: the file is rewritten, not removed
        legit = [dict(md0), {'n': [1, 2]}]
        fn = {'meta-pop-keep': lambda: a.metadata.pop('k0'), 'meta-popdefault-keep': lambda: a.metadata.pop('k0', None),
              'meta-del-keep': lambda: a.metadata.__delitem__('k0')}[op]
    elif op == 'meta-popitem-keep':
        legit = [dict(md0), {'n': [1, 2]}, {'k0': 'v0'}]       # (whichever item popitem takes)
        fn = lambda: a.metadata.popitem()
    elif op == 'meta-update-mixed':
        # one call that carries a dict AND keyword arguments: still one change (before or after, nothing in between)
        legit = [dict(md0), dict(md0, k0='changed', extra=1.5, rig='B', n=None)]
        fn = lambda: a.metadata.update({'k0': 'changed', 'extra': 1.5}, rig='B', n=None)
    elif op == 'meta-update-pairs':
        legit = [dict(md0), dict(md0, k0='changed', z=[1])]
        fn = lambda: a.metadata.update([('k0', 'changed'), ('z', [1])])
    elif op == 'append-darr':
        # the operand of ONE append is itself a Darr array (all of it is one appended chunk)
        if ragged:
            legit = [cat(0), cat(1)]
            fn = lambda: a.append(chunks[0])
        else:
            big = spec.get('big')
            rows = _vals(dt, (6, big), spec['seed'] + 50) if big else (np.concatenate(chunks, axis=0).astype(dt) if sum(spec['lens']) else chunks[0])   # (concatenate returns native byte order)
            operand = darr.asarray(path + '_operand', rows, chunklen=2) if spec.get('operand') != 'ndarray' else rows
            if big:
                import shutil
                a = None
                shutil.rmtree(path)
                first = _vals(dt, (n0, big), spec['seed'])
                a = darr.asarray(path, first, accessmode='r+')
                model0 = first
                legit = [first, np.concatenate([first, rows], axis=0).astype(dt)]
            else:
                legit = [cat(0), np.frombuffer(b''.join(x.tobytes() for x in [model0, rows]), dtype=dt).reshape((-1,) + tail)]
            fn = lambda: a.append(operand)
            return a, fn, legit, legit[0]
    else:
        raise ValueError(op)
    return a, fn, legit, (cat(0) if not op.startswith('meta') else None)


def canon_state(kind, x):
    """Canonical, hashable description of a shown state."""
    if isinstance(x, dict):
        return ('meta', json.dumps(x, sort_keys=True))
    if isinstance(x, list):
        return ('ragged', tuple((tuple(s.shape), s.tobytes()) for s in x))
    return ('array', tuple(x.shape), x.tobytes())


def observe_dir(spec, path, mode='r'):
    """Open a materialised directory the way a user would; returns ('raised', msg) or ('shows', canonical state, extra)."""
    import darr
    ragged = spec['kind'].startswith('ragged')
    meta = spec['op'].startswith('meta')
    dt = dt_of(spec['dt'])
    try:
        h = darr.RaggedArray(path, accessmode=mode) if ragged else darr.Array(path, accessmode=mode)
        if np.dtype(h.dtype).str != dt.str:
            return ('shows', ('wrong-dtype', np.dtype(h.dtype).str), None)
        if meta:
            return ('shows', canon_state(spec['kind'], dict(h.metadata)), None)
        if ragged:
            subs = [h[k] for k in range(len(h))]
            extra = None
            if h.size != sum(int(np.prod(s.shape)) for s in subs):
                extra = 'benign_orphan_tail'
            return ('shows', canon_state(spec['kind'], subs), extra)
        x = h[:]
        return ('shows', canon_state(spec['kind'], x), None)
    except Exception as e:
        return ('raised', f'{type(e).__name__}: {str(e)[:100]}')


def materialise(state, path):
    if os.path.exists(path):
        shutil.rmtree(path)
    for rel, v in sorted(state.items()):
        p = path if rel == '.' else os.path.join(path, rel)
        if v[0] == 'dir':
            os.makedirs(p, exist_ok=True)
        elif v[0] == 'file':
            with open(p, 'wb') as f:
                f.write(v[2])


INPLACE = set()      # files (relative to the array directory) that the last traced operation opened for in-place rewriting ('r+' modes)


def trace_states(path, fn, stop_at=None):
    """Run fn under a line tracer limited to darr's own frames; return the list of distinct consecutive directory states.
    While it runs, builtins.open / io.open are wrapped (harness side only) to note which files of the directory are opened for
    rewriting in place - mode 'r+' without truncation - as opposed to 'w': only for those can an interrupted rewrite leave the new
    text laid over the old one."""
    import builtins, io
    states = [snapshot(path)]
    INPLACE.clear()
    real_open = builtins.open
    root = os.path.realpath(path)

    def noting_open(file, mode='r', *args, **kwargs):
        try:
            fp_ = os.path.realpath(os.fspath(file)) if not isinstance(file, int) else None
            if fp_ and fp_.startswith(root + os.sep) and '+' in mode and 'w' not in mode and 'b' not in mode:
                INPLACE.add(os.path.relpath(fp_, root))
        except Exception:
            pass
        return real_open(file, mode, *args, **kwargs)

    def local(frame, event, arg):
        if event in ('line', 'return'):
            s = snapshot(path)
            if s != states[-1]:
                states.append(s)
                if stop_at is not None and len(states) - 1 == stop_at:
                    os._exit(0)
        return local

    def glob(frame, event, arg):
        if frame.f_code.co_filename.startswith(DARRDIR):
            return local
        return None

    old = sys.gettrace()
    builtins.open = io.open = noting_open
    sys.settrace(glob)
    try:
        fn()
    finally:
        sys.settrace(old)
        builtins.open = io.open = real_open
    s = snapshot(path)
    if s != states[-1]:
        states.append(s)
    return states


def torn_variants(a, b):
    """Directory states with one interrupted file write between consecutive states a and b."""
    out = []
    for rel in sorted(set(a) | set(b)):
        va, vb = a.get(rel), b.get(rel)
        if va == vb or (vb is not None and vb[0] != 'file') and (va is not None and va[0] != 'file'):
            continue
        old = va[2] if va and va[0] == 'file' else None
        new = vb[2] if vb and vb[0] == 'file' else None
        cands = []
        if new is not None:
            cands.append(('torn:emptied', b''))
            if old is not None and new.startswith(old) and len(new) > len(old):
                tail = new[len(old):]
                cands.append(('torn:append-half', old + tail[:len(tail) // 2]))
                cands.append(('torn:append-half', old + tail[:max(1, len(tail) // 2 | 1)]))
                cands.append(('torn:append-half', old + tail[:-1]))
            else:
                for frac in (4, 2):
                    cands.append(('torn:prefix', new[:len(new) // frac]))
                cands.append(('torn:prefix', new[:-1]))
                if old and rel in INPLACE:
                    # the file was rewritten in place (opened 'r+', observed): a write cut short leaves the new text over the old tail
                    for k in sorted({1, len(new) // 4, len(new) // 2, (3 * len(new)) // 4, len(new) - 1} | set(range(0, min(len(new), len(old)), 7))):
                        if 0 < k < len(new):
                            cands.append(('torn:new-over-old', new[:k] + old[k:]))
        elif old is not None:
            continue     # removal of a file is atomic
        mode = (vb or va)[1]
        for cls, content in cands:
            if (old is not None and content == old) or content == new:
                continue
            st_ = dict(a)
            st_[rel] = ('file', mode, content)
            out.append((cls, rel, st_))
    return out


def execute(ctx, spec):
    out = Outcome()
    kind = spec['kind']
    out.cls('kind:' + kind, 'start:' + spec['start'], 'op:' + spec['op'])
    with ctx.scratch() as d:
        path = os.path.join(d, 'x.darr')
        a, fn, legit, _ = build(spec, path)
        legit_keys = {canon_state(kind, m) for m in legit}
        states = trace_states(path, fn)
        a = None
        probe = os.path.join(d, 'probe.darr')
        cases = [('line-state', i, s) for i, s in enumerate(states)]
        for i in range(len(states) - 1):
            for cls, rel, s in torn_variants(states[i], states[i + 1]):
                out.cls(cls)
                cases.append((f'{cls}:{rel}', i, s))
        seen = set()
        nstates = 0
        for what, i, s in cases:
            key = json.dumps(sorted((k, v[0], v[2].hex() if v[0] == 'file' else '') for k, v in s.items()))
            if key in seen:
                continue
            seen.add(key)
            nstates += 1
            bad = None
            for mode in ('r', 'r+'):        # a user may reopen read-only or read-write after the crash
                materialise(s, probe)
                r = observe_dir(spec, probe, mode)
                if r[0] == 'raised':
                    out.cls('opened:raised')
                    continue
                if r[2]:
                    out.cls(r[2])
                if r[1] in legit_keys:
                    out.cls('opened:legit')
                    continue
                bad = (r, mode)
                break
            if bad is None:
                continue
            r, mode = bad
            tag = f"{kind}:{spec['op']}:{spec['start']}:{what.split(':')[0] if what.startswith('torn') else 'line-state'}" + (':reopen-r+' if mode == 'r+' else '')
            desc = r[1][0] if r[1][0] != 'array' else f'array shape {r[1][1]}'
            out.viol('crash-state-shows-illegitimate-data', tag,
                     f'state {i}/{len(states) - 1} ({what}) opens and shows {desc} which is neither the state before, after, nor original + whole chunks')
            break
        out.key = [spec, nstates]
        spec_states = len(states)
    out.nontrivial = spec_states > 2
    return out


# evaluations should count opened directories, not scenarios: wrap the collector accounting
def run_scenarios(ctx, col, specs):
    from vlib.runner import judge
    for spec in specs:
        out = execute(ctx, spec)
        nst = out.key[1] if out.key else 1
        for v in judge(ctx, col, spec, out):
            col.violation(spec, v)
        col.evaluations += max(0, nst - 1)
        col.counters['materialised_states'] += nst
        # count the distinct non-trivial states
        for j in range(max(0, nst - 2)):
            col.nontrivial.add(hash((json.dumps(spec, sort_keys=True), j)) & 0xFFFFFFFFFFFF)


def task_grid(ctx, col, shard):
    run_scenarios(ctx, col, (s for i, s in enumerate(scenario_grid()) if i % NSHARDS == shard))


def task_random(ctx, col, shard, n):
    from hypothesis import given, settings, seed as hseed, HealthCheck, Phase
    # scenarios are expensive and each is a bundle of many states: draw them, then run without Hypothesis' shrink loop
    from hypothesis import find
    import random
    rnd = random.Random(shard_seed(ctx, shard))
    specs = []

    @hseed(shard_seed(ctx, shard))
    @settings(max_examples=n, database=None, deadline=None, suppress_health_check=list(HealthCheck), phases=[Phase.generate])
    @given(st_scenario())
    def collect(s):
        specs.append(s)
    collect()
    run_scenarios(ctx, col, specs)


def task_realkill(ctx, col, shard):
    """Cross-validation: kill a forked child at the n-th state change and compare the surviving directory with state n."""
    base = [s for s in scenario_grid() if s['op'] not in ('meta-update-mixed', 'meta-update-pairs', 'append-darr') and not s['op'].endswith('-keep')]     # (ops build_on knows)
    specs = [s for i, s in enumerate(base) if i % NSHARDS == shard][:ctx.pick(2, 6)]
    for spec in specs:
        with ctx.scratch() as d:
            path = os.path.join(d, 'x.darr')
            a, fn, legit, _ = build(spec, path)
            ref = os.path.join(d, 'ref.darr')
            shutil.copytree(path, ref)
            states = trace_states(path, fn)
            a = None
            for n in range(1, len(states)):
                shutil.rmtree(path)
                shutil.copytree(ref, path)
                pid = os.fork()
                if pid == 0:
                    try:
                        import darr
                        h = (darr.RaggedArray if spec['kind'].startswith('ragged') else darr.Array)(path, accessmode='r+')
                        # rebuild the operation on the fresh handle
                        _, fn2, _, _ = build_on(spec, h)
                        trace_states(path, fn2, stop_at=n)
                    finally:
                        os._exit(0)
                os.waitpid(pid, 0)
                col.evaluations += 1
                out = Outcome()
                if snapshot(path) == states[n]:
                    out.cls('realkill:agrees')
                else:
                    raise HarnessError(f'real kill at state {n} of {spec} left a directory different from the traced state')
                col.case({'realkill': spec, 'n': n}, out)


def build_on(spec, h):
    """The operation of `spec` bound to an existing handle (used by the real-kill cross-validation)."""
    import darr
    kind, dt, tail = spec['kind'], dt_of(spec['dt']), _tail(spec['kind'])
    ragged = kind.startswith('ragged')
    chunks = [_vals(dt, (ln,) + tail, spec['seed'] + 10 + i) for i, ln in enumerate(spec['lens'])]
    op = spec['op']
    n = len(h)
    if op == 'append':
        fn = lambda: h.append(chunks[0])
    elif op == 'iterappend3':
        fn = lambda: h.iterappend(c for c in chunks)
    elif op == 'iterappend-fail1':
        def gen():
            yield chunks[0]
            raise Boom('x')

        def fn():
            try:
                h.iterappend(gen())
            except Exception:
                pass
    elif op in ('trunc-k', 'trunc-0'):
        k = n // 2 if op == 'trunc-k' else 0
        if k == 0 and op == 'trunc-k':
            k = 1 if n > 1 else 0
        tr = darr.truncate_raggedarray if ragged else darr.truncate_array
        fn = lambda: tr(h, k)
    elif op == 'meta-first':
        fn = lambda: h.metadata.__setitem__('first', [1, 'é'])
    elif op == 'meta-change':
        fn = lambda: h.metadata.update({'k0': 'changed', 'extra': 1.5})
    else:
        fn = lambda: h.metadata.pop('k0')
    return h, fn, None, None


def tasks(ctx):
    t = []
    for sh in range(NSHARDS):
        t.append((task_grid, dict(shard=sh)))
        t.append((task_random, dict(shard=sh, n=ctx.pick(8, 130))))
        t.append((task_realkill, dict(shard=sh)))
    return t
