"""C08 - README.txt documentation is current after every operation.

The histories of C03 (Array) and C04 (RaggedArray), extended with metadata
creation/deletion, overwrite=True re-creation and copy, are replayed; after
every completed step README.txt (for ragged arrays also values/README.txt and
indices/README.txt) must (a) equal byte for byte the text Darr generates from a
freshly opened handle and (b) state, by independent regex extraction, the
numeric type, byte order, dimensions, subarray count and listed subarray
dimensions of the model, contain every current readcode() snippet, and mention
metadata.json exactly when metadata exist.
"""
import itertools, os
from hypothesis import strategies as st
from vlib.runner import Outcome, hyp_search, enum_search, shard_seed, NSHARDS
from vlib import hist, rhist
from checks import c03, c04

PROPERTY = 'C08'
LEVEL = 'exploration'
RULE = ("case = Array history (C03 ops + metadata set/delete/clear + overwrite=True re-creation) or RaggedArray history (C04 ops + "
        "metadata + overwrite + copy + appends inside an open context), plus dedicated ragged growth histories crossing 5, 6 and 7 "
        "subarrays via append and via iterappend; after every completed step README bytes == text regenerated from a fresh handle, "
        "and independently extracted fields == model; non-trivial = >=2 steps that change shape or metadata; distinct = canonical spec")
ASSUMPTIONS = ["darr.array.readcodetxt / darr.raggedarray.readcodetxt applied to a FRESH handle is the reference text (a stale README is "
               "exactly a difference between a live handle's cached state and a fresh one); field extraction guards against both being wrong",
               "mutators are issued in mode r+ only"]
EXHAUSTIVE = None
MUST_HIT = ['readme-write-refused-by-the-file-system', 'ragged-len-5', 'ragged-len-6', 'ragged-len-7', 'meta-created', 'meta-deleted', 'overwrite-recreate', 'growth:append',
            'growth:iterappend', 'growth:generated', 'env:c-locale', 'overwrite-refused', 'metadata-changed-through-its-own-accessmode', 'failed-append-in-history', 'array-history', 'ragged-history', 'copy', 'ops-inside-open-context']


def _exec_readmefault(ctx, spec):
    """An operation during which README.txt cannot be written (file-size limit of 1 KiB: data and descriptions fit, the README
    does not).  The operation may fail; if it returns normally it has completed, and then the README is current."""
    import darr
    import numpy as np
    from vlib import faults
    from vlib.runner import Outcome, HarnessError
    out = Outcome()
    kind, what = spec['kind'], spec['op']
    out.cls('readme-write-refused-by-the-file-system', f'readme-fault:{kind}:{what}')
    with ctx.scratch() as d:
        path = os.path.join(d, 'a.darr')
        if kind == 'array':
            m = np.arange(6, dtype='<i4').reshape(3, 2)
            a = darr.asarray(path, m, accessmode='r+', metadata={'k': 1} if what == 'meta-del' else None)
        else:
            a = darr.asraggedarray(path, [[1, 2], [3], [4, 5, 6]], dtype='int16', accessmode='r+', metadata={'k': 1} if what == 'meta-del' else None)
        box = {}

        def op():
            if what == 'append':
                a.append([[7, 8]] if kind == 'array' else [7, 8])
            elif what == 'iterappend':
                a.iterappend([[[7, 8]], [[9, 10]]] if kind == 'array' else [[7], [8, 9]])
            elif what == 'trunc':
                (darr.truncate_array if kind == 'array' else darr.truncate_raggedarray)(a, 1)
            elif what == 'meta-set':
                a.metadata['first'] = 1
            else:
                a.metadata.pop('k')

        def inspect(raised):
            if raised:
                return {'raised': raised, 'v': []}
            o = Outcome()
            if kind == 'array':
                fresh = darr.Array(path)
                hist.check_array_readme(o, path, fresh[:], bool(fresh.metadata), f'readme-fault:{what}')
            else:
                try:
                    from darr.raggedarray import readcodetxt
                except ImportError:      # renamed in a refactoring: nothing to compare with
                    return {'raised': None, 'v': []}
                with open(os.path.join(path, 'README.txt'), encoding='utf-8') as f:
                    txt = f.read()
                want = readcodetxt(darr.RaggedArray(path))
                if txt != want:
                    o.viol('readme-stale', f'ragged:readme-fault:{what}', 'the operation returned normally although README.txt could not be written; it is not current')
            return {'raised': None, 'v': o.violations}
        res, err = faults.run_with_fsize_limit(1024, op, inspect)
        if err is not None:
            raise HarnessError(err)
        if res['raised']:
            out.cls('readme-fault:operation-raised')
        out.violations.extend(res['v'])
    return out


def readmefault_specs():
    for kind in ('array', 'ragged'):
        for what in ('append', 'iterappend', 'trunc', 'meta-set', 'meta-del'):
            yield {'f': 'readme-fault', 'kind': kind, 'op': what}


def execute(ctx, spec):
    if spec.get('f') == 'readme-fault':
        return _exec_readmefault(ctx, spec)
    if spec.get('env'):          # a case recorded from a child interpreter under another environment (replay path)
        from vlib import envrun
        return envrun.execute_in_env(ctx, 'checks.c08', spec)
    if spec.get('kind') == 'ragged':
        out, run = rhist.run_ragged_history(ctx, spec, ('readme',))
        out.cls('ragged-history')
        if spec.get('growth'):
            out.cls('growth:' + spec['growth'])
        out.nontrivial = run.nmut >= 2 or len([k for k in run.kinds if k in ('meta', 'overwrite', 'copy')]) >= 2
        return out
    out, run = hist.run_array_history(ctx, spec, ('readme',))
    out.cls('array-history')
    out.nontrivial = len([k for k in run.kinds if k in ('append', 'iterappend', 'trunc', 'meta', 'overwrite')]) >= 2
    return out


def growth_specs():
    """Ragged arrays growing (and shrinking) through lengths 4..8, one subarray at a time."""
    for via in ('append', 'iterappend'):
        for atom, dt, itype in (([], {'t': 'int32', 'bo': '<'}, 'int64'), ([2], {'t': 'float64', 'bo': '>'}, 'int16'), ([1, 3], {'t': 'uint8', 'bo': '<'}, 'uint32')):
            for n0 in (3, 4):
                start = {'how': 'as', 'dt': dt, 'atom': atom, 'indextype': itype, 'meta': None, 'mode': 'r+', 'dtarg': True, 'gen': False,
                         'items': [{'n': (i * 2 + 1) % 4, 'seed': i, 'form': 'nd'} for i in range(n0)]}
                ops = []
                for i in range(5):
                    item = {'n': (i * 3 + 2) % 5, 'seed': 50 + i, 'form': 'nd'}
                    ops.append({'o': 'append', 'item': item} if via == 'append' else {'o': 'iterappend', 'items': [item], 'gen': i % 2 == 0})
                ops += [{'o': 'trunc', 'i': -1, 'by': 'obj'}, {'o': 'trunc', 'i': -1, 'by': 'obj'}, {'o': 'trunc', 'i': 5, 'by': 'obj'},
                        {'o': 'iterappend', 'items': [{'n': 2, 'seed': 70, 'form': 'nd'}, {'n': 0, 'seed': 71, 'form': 'nd'}], 'gen': False},
                        {'o': 'meta', 'a': 'set', 'k': 'a'}, {'o': 'trunc', 'i': 0, 'by': 'obj'}, {'o': 'append', 'item': {'n': 1, 'seed': 72, 'form': 'nd'}}]
                yield {'kind': 'ragged', 'growth': via, 'start': start, 'ops': ops}
    # shrink below five subarrays on the SAME handle, then regrow with other lengths (anything cached per position would show)
    for atom, dt in (([], {'t': 'int16', 'bo': '>'}), ([2], {'t': 'float32', 'bo': '<'})):
        start = {'how': 'as', 'dt': dt, 'atom': atom, 'indextype': 'int64', 'meta': None, 'mode': 'r+', 'dtarg': True, 'gen': False,
                 'items': [{'n': 1 + i % 3, 'seed': i, 'form': 'nd'} for i in range(7)]}
        ops = [{'o': 'trunc', 'i': 2, 'by': 'obj'}] + [{'o': 'append', 'item': {'n': 4 - i % 3, 'seed': 30 + i, 'form': 'nd'}} for i in range(5)] + \
              [{'o': 'trunc', 'i': 3, 'by': 'path'}, {'o': 'iterappend', 'items': [{'n': 0, 'seed': 40, 'form': 'nd'}, {'n': 2, 'seed': 41, 'form': 'nd'}], 'gen': True},
               {'o': 'trunc', 'i': 1, 'by': 'obj'}, {'o': 'append', 'item': {'n': 3, 'seed': 42, 'form': 'nd'}}]
        yield {'kind': 'ragged', 'growth': 'append', 'start': start, 'ops': ops}
    # a tail of EMPTY subarrays is cut off (no value goes, the length drops below five), then non-empty ones arrive at those positions
    for atom, dt, k in (([], {'t': 'int16', 'bo': '>'}, 2), ([2], {'t': 'float32', 'bo': '<'}, 1), ([], {'t': 'uint8', 'bo': '<'}, 4)):
        start = {'how': 'as', 'dt': dt, 'atom': atom, 'indextype': 'int64', 'meta': None, 'mode': 'r+', 'dtarg': True, 'gen': False,
                 'items': [{'n': 2 if i < k else 0, 'seed': i, 'form': 'nd'} for i in range(7)]}
        ops = [{'o': 'append', 'item': {'n': 0, 'seed': 20, 'form': 'nd'}}, {'o': 'trunc', 'i': k, 'by': 'obj'}] + \
              [{'o': 'append', 'item': {'n': 3 - i % 2, 'seed': 30 + i, 'form': 'nd'}} for i in range(6 - k)] + \
              [{'o': 'iterappend', 'items': [{'n': 0, 'seed': 40, 'form': 'nd'}] * 3, 'gen': False}, {'o': 'trunc', 'i': 6 - k + k, 'by': 'obj'},
               {'o': 'trunc', 'i': k, 'by': 'obj'}, {'o': 'iterappend', 'items': [{'n': 1, 'seed': 50 + i, 'form': 'nd'} for i in range(5)], 'gen': True}]
        yield {'kind': 'ragged', 'growth': 'append', 'start': start, 'ops': ops}
    # a read-only Array whose metadata object alone is switched to r+; a refused re-creation over an array with metadata
    for how in ('asarray', 'create'):
        for meta in (False, True):
            st0 = {'dt': {'t': 'float32', 'bo': '>'}, 'shape': [2, 2], 'seed': 6, 'how': how, 'mode': 'r', 'meta': meta, 'layout': 'C', 'chunklen': 2}
            yield {'start': st0, 'ops': [{'o': 'meta-own-mode', 'a': 'clear', 'k': 'a'}, {'o': 'meta-own-mode', 'a': 'set', 'k': 'a'},
                                         {'o': 'overwrite-refused', 'what': 'strings'}, {'o': 'meta-own-mode', 'a': 'set', 'k': 'b'},
                                         {'o': 'meta-own-mode', 'a': 'clear', 'k': 'a'}, {'o': 'overwrite-refused', 'what': 'bools'}]}
    # Array handles constructed read-only, switched to r+, then first metadata key created / last one removed
    for how in ('asarray', 'create'):
        for meta in (False, True):
            st0 = {'dt': {'t': 'int32', 'bo': '<'}, 'shape': [3, 2], 'seed': 5, 'how': how, 'mode': 'r', 'meta': meta, 'layout': 'C', 'chunklen': 2}
            yield {'start': st0, 'ops': [{'o': 'mode', 'm': 'r+'}, {'o': 'meta', 'a': 'clear', 'k': 'a'}, {'o': 'meta', 'a': 'set', 'k': 'a'},
                                         {'o': 'append', 'arg': {'k': 'rows', 'n': 1, 'seed': 2}}, {'o': 'meta', 'a': 'del', 'k': 'a'},
                                         {'o': 'reopen', 'm': 'r'}, {'o': 'mode', 'm': 'r+'}, {'o': 'meta', 'a': 'set', 'k': 'b'},
                                         {'o': 'copy', 'chunklen': 2}, {'o': 'meta', 'a': 'clear', 'k': 'a'}, {'o': 'meta', 'a': 'set', 'k': 'a'}]}
    # another ragged array of another atom rank / type comes to life, then the first one is changed (anything the objects share shows
    # in the code snippets of the README that is regenerated)
    for atom, satom in (([], [2]), ([2], []), ([3, 2], [2]), ([], [2, 3])):
        start = {'how': 'as', 'dt': {'t': 'float64', 'bo': '<'}, 'atom': atom, 'indextype': 'int64', 'meta': None, 'mode': 'r+', 'dtarg': True, 'gen': False,
                 'items': [{'n': 2, 'seed': 1, 'form': 'nd'}, {'n': 1, 'seed': 2, 'form': 'nd'}]}
        for via in ('as', 'open', 'copy'):
            sib = {'o': 'sibling', 'dt': {'t': 'int16', 'bo': '>'}, 'atom': satom, 'indextype': 'int32', 'items': [{'n': 1, 'seed': 3, 'form': 'nd'}], 'via': via}
            yield {'kind': 'ragged', 'growth': 'append', 'start': start,
                   'ops': [sib, {'o': 'append', 'item': {'n': 3, 'seed': 4, 'form': 'nd'}}, {'o': 'trunc', 'i': 1, 'by': 'obj'}, sib,
                           {'o': 'iterappend', 'items': [{'n': 0, 'seed': 5, 'form': 'nd'}], 'gen': False}]}
    start = {'how': 'create', 'dt': {'t': 'complex64', 'bo': '<'}, 'atom': [2], 'indextype': 'int64', 'meta': 'dict', 'mode': 'r+', 'dtarg': True}
    yield {'kind': 'ragged', 'growth': 'append', 'start': start,
           'ops': [{'o': 'append', 'item': {'n': i % 3, 'seed': i, 'form': 'nd'}} for i in range(8)]}


def task_readmefault(ctx, col):
    enum_search(ctx, col, readmefault_specs(), lambda s: execute(ctx, s))


def task_growth(ctx, col):
    enum_search(ctx, col, growth_specs(), lambda s: execute(ctx, s))
    # a sample of the histories in a child interpreter whose default text encoding is ASCII: the README (which holds non-ASCII
    # characters for most types) is written and compared there too
    from vlib import envrun
    from vlib.runner import hyp_collect
    specs = list(growth_specs())[::5] + hyp_collect(hist.st_array_history(max_ops=5, extra=('meta',)), shard_seed(ctx, 80), ctx.pick(25, 300)) + \
        [dict(s, kind='ragged') for s in hyp_collect(rhist.st_ragged_history(max_ops=4, extra=('meta',)), shard_seed(ctx, 81), ctx.pick(10, 150))]
    envrun.run_specs(ctx, col, 'checks.c08', specs, 'c-locale')


def task_enum(ctx, col, shard, L):
    specs = itertools.chain(c03.enum_specs(L), (dict(s, kind='ragged') for s in c04.enum_specs(L)))
    enum_search(ctx, col, (s for i, s in enumerate(specs) if i % NSHARDS == shard), lambda s: execute(ctx, s))


def task_random(ctx, col, shard, n):
    sa = hist.st_array_history(max_ops=ctx.pick(8, 25), extra=('meta', 'meta', 'overwrite', 'meta-own-mode'))
    hyp_search(ctx, col, sa, lambda s: execute(ctx, s), shard_seed(ctx, shard), n)
    sr = rhist.st_ragged_history(max_ops=ctx.pick(8, 25), extra=('meta', 'overwrite', 'copy')).map(lambda s: dict(s, kind='ragged'))
    hyp_search(ctx, col, sr, lambda s: execute(ctx, s), shard_seed(ctx, shard) + 3, max(10, n // 3))
    sg = rhist.st_growth_history(max_ops=ctx.pick(10, 20)).map(lambda s: dict(s, kind='ragged', growth='generated'))
    hyp_search(ctx, col, sg, lambda s: execute(ctx, s), shard_seed(ctx, shard) + 5, max(10, n // 3))


def tasks(ctx):
    global EXHAUSTIVE
    L = ctx.pick(2, 3)
    EXHAUSTIVE = f"all op sequences of length <= {L} over C03's and C04's alphabets; the fixed ragged growth histories through 3..9 subarrays"
    t = [(task_growth, {}), (task_readmefault, {})]
    for sh in range(NSHARDS):
        t.append((task_enum, dict(shard=sh, L=L)))
        t.append((task_random, dict(shard=sh, n=ctx.pick(120, 2000))))
    return t
