"""C12 - indexing reads and writes follow NumPy semantics, as detached copies, durably.

Differential oracle: every generated index expression is applied to an in-memory
ndarray reference and to the Darr array; reads must give the same dtype/shape/
bytes or the same class of exception, as an ndarray that is neither a memmap nor
based on one and that stays unchanged when the file is overwritten afterwards;
writes must have NumPy's effect, visible through the live handle, a fresh handle
and the raw file, or fail alike and change nothing.  /proc/self/fd and
/proc/self/maps are inspected after every operation outside a context.
"""
import os, mmap
import numpy as np
from hypothesis import strategies as st
from vlib.runner import Outcome, hyp_search, enum_search, shard_seed, NSHARDS
from vlib import gens
from vlib.gens import dt_of, kind
from vlib.snap import open_fds_for, maps_for

PROPERTY = 'C12'
LEVEL = 'exploration'
RULE = ("case = array (13 types x 2 byte orders, rank 1-4, first axis 0..6) + 1-6 accesses, each a read or write with an index "
        "built from {int (neg/out of range), slice (None/neg/step/reversed/empty/out of range), Ellipsis, None, integer array, "
        "boolean mask (axis or full, right or wrong shape), str, float, dict} alone or in tuples of correct/too large arity, and "
        "for writes a value {scalar, broadcastable row, other dtype, wrong shape, unconvertible}; run outside, inside and inside "
        "nested open_array() contexts; oracle = NumPy on an in-memory copy; non-trivial = an access whose index is not [:] or a "
        "single in-range int; distinct = canonical spec")
ASSUMPTIONS = ["exception classes are compared by subclass relation (e.g. IndexError vs IndexError)",
               "assigned values of another dtype are small non-negative integers so the cast is defined",
               "a result that is a memmap or based on one is reported without touching its memory"]
EXHAUSTIVE = None
MUST_HIT = ['write:signed-zero', 'write:same-values-sign-flipped', 'idx:indexobj-reentrant', 'array-from-create_temparray', 'idx:indexobj', 'zero-extent-in-non-first-axis', 'mode:r/ctx:r+', 'mode:r+/ctx:r+', 'mode:r/ctx:None', 'mode:r+/ctx:r', 'ctx:nested-mixed-modes', 'ctx:live-iterator', 'write:readonly', 'setmode', 'idx:pybool', 'iter:close', 'iter:drop', 'iter:exhaust', 'idx:npint', 'idx:mask', 'idx:fullmask', 'idx:intarr', 'idx:none', 'idx:ell', 'idx:int-out-of-range', 'failed-write', 'failed-read',
            'empty-array', 'ctx:none', 'ctx:open', 'ctx:nested', 'write:otherdt', 'write:row', 'idx:badtype', 'idx:too-many',
            'write:mask']


@st.composite
def st_comp(draw, n):
    k = draw(st.sampled_from(['int', 'int', 'slice', 'slice', 'ell', 'full', 'none', 'intarr', 'mask', 'badtype', 'pybool', 'indexobj']))
    if k == 'indexobj':      # an object that is an integer only through __index__ (basic indexing for NumPy)
        return {'t': draw(st.sampled_from(['indexobj', 'indexobj', 'indexobj-reentrant'])), 'v': draw(st.integers(-n - 1, n))}
    if k == 'pybool':        # a Python bool is a 0-d boolean mask for NumPy, not the integer 0/1
        return {'t': 'pybool', 'v': draw(st.booleans())}
    if k == 'int':
        return {'t': draw(st.sampled_from(['int', 'int', 'npint'])), 'v': draw(st.integers(-n - 2, n + 1))}
    if k == 'slice':
        b = st.one_of(st.none(), st.integers(-n - 2, n + 2))
        return {'t': 'slice', 'v': [draw(b), draw(b), draw(st.one_of(st.none(), st.sampled_from([1, 2, -1, -2, 3])))]}
    if k == 'ell':
        return {'t': 'ell'}
    if k == 'full':
        return {'t': 'slice', 'v': [None, None, None]}
    if k == 'none':
        return {'t': 'none'}
    if k == 'intarr':
        return {'t': draw(st.sampled_from(['intarr', 'intlist'])), 'v': draw(st.lists(st.integers(-n - 1, n), max_size=4))}
    if k == 'mask':
        ln = draw(st.sampled_from([n, n, n, n + 1, max(0, n - 1)]))
        return {'t': 'mask', 'v': draw(st.lists(st.booleans(), min_size=ln, max_size=ln))}
    return draw(st.sampled_from([{'t': 'str', 'v': 'a'}, {'t': 'float', 'v': 1.0}, {'t': 'dict'}]))


@st.composite
def st_index(draw, shape):
    k = draw(st.sampled_from(['single', 'tuple', 'tuple', 'fullmask', 'toomany']))
    if k == 'single':
        return draw(st_comp(shape[0]))
    if k == 'fullmask':
        return {'t': 'fullmask', 's': draw(st.integers(0, 2 ** 16)), 'wrong': draw(st.sampled_from([False, False, True]))}
    if k == 'toomany':
        return {'t': 'tuple', 'v': [{'t': 'int', 'v': 0}] * (len(shape) + 1)}
    m = draw(st.integers(1, len(shape)))
    comps = []
    ax = 0
    seen = False
    for _ in range(m + draw(st.integers(0, 1))):
        c = draw(st_comp(shape[min(ax, len(shape) - 1)]))
        if c['t'] == 'ell':
            if seen:
                c = {'t': 'slice', 'v': [None, None, None]}
            seen = True
        if c['t'] != 'none':
            ax += 1
        comps.append(c)
    return {'t': 'tuple', 'v': comps}


@st.composite
def st_case(draw):
    shape = draw(gens.st_shape())
    if len(shape) >= 2 and draw(st.sampled_from([False, False, False, False, True])):
        shape[draw(st.integers(1, len(shape) - 1))] = 0        # empty through a non-first axis
    n = draw(st.integers(1, 6))
    acc = []
    for _ in range(n):
        w = draw(st.sampled_from(['get', 'get', 'set']))
        a = {'k': w, 'idx': draw(st_index(shape))}
        if w == 'set':
            a['val'] = {'k': draw(st.sampled_from(['scalar', 'row', 'otherdt', 'full', 'wrongshape', 'unconv', 'negzero', 'poszero', 'same'])), 's': draw(st.integers(0, 2 ** 31))}
        acc.append(a)
    mode = draw(st.sampled_from(['r+', 'r+', 'r']))
    # control operations woven into the accesses: contexts and live iterators entered with any access mode (nested in any
    # combination), left again, and access-mode assignments between them
    ops, depth = [], 0
    for a_ in acc:
        c = draw(st.sampled_from(['', '', '', 'enter', 'enter', 'exit', 'setmode', 'iterclose']))
        if c == 'enter' and depth < 3:
            ops.append({'k': 'enter', 'via': draw(st.sampled_from(['ctx', 'ctx', 'iter'])), 'mode': draw(st.sampled_from([None, None, 'r', 'r+']))})
            depth += 1
        elif c == 'exit' and depth:
            ops.append({'k': 'exit', 'how': draw(st.sampled_from(['close', 'close', 'drop', 'exhaust']))})
            depth -= 1
        elif c == 'setmode' and depth == 0:
            ops.append({'k': 'setmode', 'm': draw(st.sampled_from(['r', 'r+']))})
        elif c == 'iterclose':
            ops.append({'k': 'iterclose', 'how': draw(st.sampled_from(['close', 'drop', 'exhaust']))})
        ops.append(a_)
    return {'dt': draw(gens.st_dt()), 'shape': shape, 'seed': draw(st.integers(0, 2 ** 31)), 'ops': ops, 'mode': mode,
            'via': draw(st.sampled_from([None, None, None, 'temparray'])), 'zeros': draw(st.sampled_from([False, False, False, True]))}


class _Row:
    """Not an int, but usable as one (operator.index): NumPy does basic indexing with it."""
    def __init__(self, v, hook=None):
        self.v = int(v)
        self.hook = hook

    def __index__(self):
        if self.hook:
            for f in self.hook:      # user code running in the middle of the access: it uses the same array object
                f()
        return self.v


_REENTER = []


def build_idx(ix, shape):
    if ix['t'] == 'fullmask':
        rng = np.random.Generator(np.random.PCG64(ix['s']))
        shp = tuple(shape) if not ix['wrong'] else tuple(shape[:-1]) + (shape[-1] + 1,)
        return rng.random(shp) < 0.5
    if ix['t'] == 'tuple':
        return tuple(build_idx(i, shape) for i in ix['v'])
    if ix['t'] == 'pybool':
        return bool(ix['v'])
    if ix['t'] == 'indexobj':
        return _Row(ix['v'])
    if ix['t'] == 'indexobj-reentrant':
        return _Row(ix['v'], _REENTER)
    return gens.build_index(ix)


def idx_classes(ix, shape, out):
    t = ix['t']
    if t == 'tuple':
        if len([c for c in ix['v'] if c['t'] not in ('none', 'ell')]) > len(shape):
            out.cls('idx:too-many')
        for c in ix['v']:
            idx_classes(c, shape, out)
        return
    if t in ('intarr', 'intlist'):
        out.cls('idx:intarr')
    elif t in ('str', 'float', 'dict'):
        out.cls('idx:badtype')
    elif t in ('int', 'npint'):
        if t == 'npint':
            out.cls('idx:npint')
        if not -shape[0] <= ix['v'] < shape[0]:
            out.cls('idx:int-out-of-range')
    else:
        out.cls('idx:' + t)


def trivial_index(ix, shape):
    if ix['t'] == 'slice' and ix['v'] == [None, None, None]:
        return True
    if ix['t'] == 'int' and -shape[0] <= ix['v'] < shape[0]:
        return True
    return False


def has_mmap_base(x):
    b = x
    for _ in range(12):
        if isinstance(b, (np.memmap, mmap.mmap)):
            return True
        b = getattr(b, 'base', None)
        if b is None:
            return False
    return False


def same_exc(e1, e2):
    return issubclass(type(e1), type(e2)) or issubclass(type(e2), type(e1))


def normalise(spec):
    """Older case files ({'acc', 'ctx', 'cmode'}) are rewritten as an op list with explicit enter / exit operations."""
    if 'ops' in spec:
        return spec
    acc, cm = list(spec['acc']), spec.get('cmode')
    if spec['ctx'] == 'open':
        ops = [{'k': 'enter', 'via': 'ctx', 'mode': cm}] + acc + [{'k': 'exit', 'how': 'close'}]
    elif spec['ctx'] == 'nested':
        half = len(acc) // 2
        ops = [{'k': 'enter', 'via': 'ctx', 'mode': cm}, {'k': 'enter', 'via': 'ctx', 'mode': None}] + acc[:half] + \
              [{'k': 'exit', 'how': 'close'}] + acc[half:] + [{'k': 'exit', 'how': 'close'}]
    else:
        ops = acc
    return {'dt': spec['dt'], 'shape': spec['shape'], 'seed': spec['seed'], 'ops': ops, 'mode': spec['mode']}


def execute(ctx, spec):
    import darr
    out = Outcome()
    dt = dt_of(spec['dt'])
    shape = tuple(spec['shape'])
    spec = normalise(spec)
    if shape[0] == 0:
        out.cls('empty-array')
    nontriv = False
    with ctx.scratch() as d:
        path = os.path.join(d, 'a.darr')
        ref = gens.build_array(dt, shape, {'m': 'raw', 's': spec['seed']}).copy()
        if spec.get('zeros'):
            ref[...] = 0          # all cells +0 (what create_array fills with)
        if 0 in shape[1:]:
            out.cls('zero-extent-in-non-first-axis')
        # (an explicit chunk length: the default one is computed by dividing by the row size)
        tcm = None
        try:
            if spec.get('via') == 'temparray' and ref.shape[0] > 0 and 0 not in shape[1:]:
                # the array comes from create_temparray (a context manager that removes it at the end) and is filled by assignment
                out.cls('array-from-create_temparray')
                tcm = darr.create_temparray(shape=shape, dtype=dt, chunklen=2, accessmode='r+', report=False)
                a = tcm.__enter__()
                a[...] = ref
                path = str(a.path)
                if spec['mode'] == 'r':
                    a.accessmode = 'r'
            else:
                a = darr.asarray(path, ref, accessmode=spec['mode'], **({'chunklen': 2} if 0 in shape[1:] else {}))
        except Exception as e:
            out.viol('create-raised', f'asarray:{type(e).__name__}', f'asarray of shape {shape} in mode {spec["mode"]}: {type(e).__name__}: {e}')
            return out
        datafile = os.path.join(path, 'arrayvalues.bin')
        # what a re-entrant index object does while the access it belongs to is running: re-assign the access mode the handle has,
        # read an element, ask for the length
        del _REENTER[:]
        _REENTER.extend([lambda: setattr(a, 'accessmode', a.accessmode), lambda: len(a), lambda: a.shape])
        results = []      # (returned array, copy taken at return time)

        def leaks(tag):
            fds, maps = open_fds_for(path), maps_for(path)
            if fds or maps:
                out.viol('descriptor-leak', tag, f'open after the operation: fds={fds} maps={maps[:2]}')
                return True
            return False

        def one(acc, inside):
            nonlocal nontriv
            if acc['k'] == 'iterclose':
                # an iterchunks iterator that is closed / abandoned / exhausted must not leave the data file open either
                out.cls('iter:' + acc['how'])
                if shape[0] == 0:
                    return True
                it = a.iterchunks(chunklen=1)
                first = next(it)
                if first.tobytes() != ref[0:1].tobytes():
                    out.viol('read-mismatch', 'iterchunks', 'first chunk differs')
                    return False
                if acc['how'] == 'close':
                    it.close()
                elif acc['how'] == 'drop':
                    del it
                    import gc
                    gc.collect()
                else:
                    for _ in it:
                        pass
                if not inside and leaks('iterchunks:' + acc['how']):
                    return False
                return True
            idx = build_idx(acc['idx'], shape)
            idx_classes(acc['idx'], shape, out)
            if not trivial_index(acc['idx'], shape):
                nontriv = True
            where = 'in-context' if inside else 'plain'
            if acc['k'] == 'get':
                try:
                    want, wexc = np.asarray(ref[idx]), None
                except Exception as e:
                    want, wexc = None, e
                try:
                    got, gexc = a[idx], None
                except Exception as e:
                    got, gexc = None, e
                if wexc is not None:
                    out.cls('failed-read')
                    if gexc is None:
                        out.viol('read-no-raise', f'get:{type(wexc).__name__}', f'index {acc["idx"]} on {shape}: NumPy raises {type(wexc).__name__}, Darr returned {got!r:.100}')
                        return False
                    if not same_exc(gexc, wexc):
                        out.viol('read-wrong-exception', f'get:{type(wexc).__name__}', f'index {acc["idx"]}: NumPy {type(wexc).__name__}, Darr {type(gexc).__name__}: {gexc}')
                        return False
                else:
                    if gexc is not None:
                        out.viol('read-raised', f'get:{where}:{type(gexc).__name__}', f'index {acc["idx"]} on {shape}: {type(gexc).__name__}: {gexc}')
                        return False
                    if isinstance(got, np.memmap) or has_mmap_base(got):
                        out.viol('not-detached', f'get:{where}', f'index {acc["idx"]}: result is backed by the memory map')
                        return False
                    if not isinstance(got, np.ndarray):
                        out.viol('read-mismatch', 'get:type', f'index {acc["idx"]}: result type {type(got).__name__}')
                        return False
                    if np.dtype(got.dtype).str != want.dtype.str or got.shape != want.shape or got.tobytes() != want.tobytes():
                        out.viol('read-mismatch', f'get:{where}', f'index {acc["idx"]} on {shape}: got {got.dtype.str}{got.shape} want {want.dtype.str}{want.shape}')
                        return False
                    results.append((got, got.copy()))
            else:
                vk = acc['val']['k']
                probe = ref.copy()
                try:
                    tshape = np.shape(probe[idx])
                except Exception:
                    tshape = ()
                if vk == 'scalar':
                    v = gens.build_array(dt, (1,), {'m': 'raw', 's': acc['val']['s']})[0]
                elif vk == 'row':
                    v = gens.build_array(dt, tshape[-1:] if tshape else (1,), {'m': 'raw', 's': acc['val']['s']})
                    out.cls('write:row')
                elif vk == 'full':
                    v = gens.build_array(dt, tshape, {'m': 'raw', 's': acc['val']['s']})
                elif vk == 'otherdt':
                    v = gens.build_array('complex128' if kind(dt.name) == 'c' else 'float64', tshape, {'m': 'safe', 's': acc['val']['s']})
                    out.cls('write:otherdt')
                elif vk in ('negzero', 'poszero'):
                    # zeros of either sign: equal as numbers to what zero cells hold, different as bit patterns (float / complex types)
                    v = (-0.0 if vk == 'negzero' else 0.0) if kind(dt.name) in 'fc' else 0
                    out.cls('write:signed-zero')
                elif vk == 'same':
                    # the value that is already there, sign of zeros flipped (a write that 'changes nothing' numerically)
                    try:
                        v = -np.asarray(probe[idx]) if kind(dt.name) in 'fc' else np.asarray(probe[idx]).copy()
                    except Exception:
                        v = 0
                    out.cls('write:same-values-sign-flipped')
                elif vk == 'wrongshape':
                    v = gens.build_array(dt, tuple(tshape) + (3,) if len(tshape) < 3 else (7, 5), {'m': 'safe', 's': acc['val']['s']})
                else:
                    v = 'abc'
                if acc['idx']['t'] in ('mask', 'fullmask') or (acc['idx']['t'] == 'tuple' and any(c['t'] == 'mask' for c in acc['idx']['v'])):
                    out.cls('write:mask')
                try:
                    probe[idx] = v
                    wexc = None
                except Exception as e:
                    wexc = e
                before = open(datafile, 'rb').read()
                try:
                    a[idx] = v
                    gexc = None
                except Exception as e:
                    gexc = e
                modes = {e_[2] for e_ in stack if e_[0] != 'failed'} or {hmode[0]}
                if modes != {'r+'} and wexc is None:
                    # the map in use (or the handle) is read-only: the write must be refused; with read-only and read-write
                    # openers nested in one another what should happen is not stated anywhere: refusal and NumPy's effect both pass
                    out.cls('write:readonly' if modes == {'r'} else 'write:mixed-modes')
                    if gexc is not None:
                        if open(datafile, 'rb').read() != before:
                            out.viol('failed-write-changed-file', f'set:refused:{where}', f'index {acc["idx"]} value {vk}')
                            return False
                        return True
                    if modes == {'r'}:
                        out.viol('readonly-write-did-not-raise', f'set:{where}', f'handle mode {hmode[0]}, open modes {sorted(modes)}: a[idx] = v succeeded')
                        return False
                if wexc is not None:
                    out.cls('failed-write')
                    if gexc is None:
                        out.viol('write-no-raise', f'set:{type(wexc).__name__}', f'index {acc["idx"]} value {vk}: NumPy raises {type(wexc).__name__}: {wexc}')
                        return False
                    if not same_exc(gexc, wexc) and modes == {'r+'}:     # (a read-only map may refuse before NumPy looks at the index)
                        out.viol('write-wrong-exception', f'set:{type(wexc).__name__}', f'NumPy {type(wexc).__name__}, Darr {type(gexc).__name__}: {gexc}')
                        return False
                    if open(datafile, 'rb').read() != before:
                        out.viol('failed-write-changed-file', f'set:{type(wexc).__name__}', f'index {acc["idx"]} value {vk}')
                        return False
                else:
                    if gexc is not None:
                        out.viol('write-raised', f'set:{where}:{type(gexc).__name__}', f'index {acc["idx"]} value {vk} on {shape}: {type(gexc).__name__}: {gexc}')
                        return False
                    ref[...] = probe
                    for hn, h in (('live', a), ('fresh', darr.Array(path))):
                        g = h[:]
                        if isinstance(g, np.memmap) or has_mmap_base(g):
                            out.viol('not-detached', f'get:{where}', 'a[:] is backed by the memory map')
                            return False
                        if g.tobytes() != ref.tobytes():
                            out.viol('write-not-visible', f'set:{where}:{hn}', f'index {acc["idx"]} value {vk}')
                            return False
                    if open(datafile, 'rb').read() != ref.tobytes():
                        out.viol('write-not-durable', f'set:{where}', f'index {acc["idx"]} value {vk}: raw file differs from the model')
                        return False
            if not inside and leaks(f'{acc["k"]}:after-op'):
                return False
            return True

        stack = []           # live openers, innermost last: (kind, object, effective mode) or ('failed',)
        hmode = [spec['mode']]

        def leave(how='close'):
            e_ = stack.pop()
            if e_[0] == 'ctx':
                e_[1].__exit__(None, None, None)
            elif e_[0] == 'iter':
                if how == 'exhaust':
                    for _ in e_[1]:
                        pass
                elif how == 'drop':
                    e_ = None
                    import gc
                    gc.collect()
                else:
                    e_[1].close()
            e_ = None
            if not any(x[0] != 'failed' for x in stack):
                return not leaks('after-exit')
            return True

        def enter(op):
            req = op.get('mode')
            eff = req or hmode[0]
            live = [x for x in stack if x[0] != 'failed']
            out.cls(f"mode:{hmode[0]}/ctx:{req}", 'ctx:nested' if live else 'ctx:open')
            if live and any(x[2] != eff for x in live):
                out.cls('ctx:nested-mixed-modes')
            try:
                if op.get('via') == 'iter':
                    if shape[0] == 0:
                        stack.append(('failed',))
                        return True
                    out.cls('ctx:live-iterator')
                    it = a.iterchunks(chunklen=1, accessmode=req)
                    first = next(it)
                    if first.tobytes() != ref[0:1].tobytes():
                        out.viol('read-mismatch', 'iterchunks', 'first chunk differs')
                        return False
                    stack.append(('iter', it, eff))
                else:
                    cm = a.open_array(accessmode=req)
                    cm.__enter__()
                    stack.append(('ctx', cm, eff))
            except Exception as e:
                if all(x[2] == eff for x in live):
                    out.viol('context-raised', f'enter:{op.get("via")}:{type(e).__name__}', f'{type(e).__name__}: {e}')
                    return False
                stack.append(('failed',))     # a refused request for another mode than the one already open is tolerated
            return True

        try:
            if not any(o_['k'] == 'enter' for o_ in spec['ops']):
                out.cls('ctx:none')
            ok = True
            for acc in spec['ops']:
                k = acc['k']
                if k == 'enter':
                    ok = enter(acc)
                elif k == 'exit':
                    ok = leave(acc.get('how', 'close')) if stack else True
                elif k == 'setmode':
                    if not any(x[0] != 'failed' for x in stack):
                        a.accessmode = acc['m']
                        hmode[0] = acc['m']
                        out.cls('setmode')
                else:
                    ok = one(acc, any(x[0] != 'failed' for x in stack))
                if not ok:
                    break
            while stack:
                if not leave('close'):
                    break
        except Exception as e:
            out.viol('context-raised', f'driver:{type(e).__name__}', f'{type(e).__name__}: {e}')
            stack.clear()
        if not out.violations:
            leaks('end')
        if not out.violations and results:
            # overwrite the file: previously returned arrays must not change
            with open(datafile, 'r+b') as f:
                f.write(bytes(len(ref.tobytes())))
            for got, cp in results:
                if got.tobytes() != cp.tobytes():
                    out.viol('result-changed-after-file-overwrite', 'get', 'a previously returned array changed when the file was overwritten')
                    break
        if tcm is not None:
            a = None
            try:
                tcm.__exit__(None, None, None)
            except Exception as e:
                out.viol('context-raised', f'create_temparray-exit:{type(e).__name__}', f'{type(e).__name__}: {e}')
    out.nontrivial = nontriv
    return out


def fixed_specs():
    """A small deterministic grid so every index class occurs for every rank."""
    comps = [{'t': 'int', 'v': -1}, {'t': 'int', 'v': 9}, {'t': 'npint', 'v': 1}, {'t': 'slice', 'v': [None, None, -1]}, {'t': 'slice', 'v': [5, 1, None]},
             {'t': 'ell'}, {'t': 'none'}, {'t': 'intarr', 'v': [0, 0, -1]}, {'t': 'intlist', 'v': [1, 7]}, {'t': 'mask', 'v': [True, False, True]},
             {'t': 'mask', 'v': [True, False]}, {'t': 'str', 'v': 'a'}, {'t': 'float', 'v': 1.0}, {'t': 'dict'},
             {'t': 'fullmask', 's': 3, 'wrong': False}, {'t': 'fullmask', 's': 3, 'wrong': True}, {'t': 'pybool', 'v': True}, {'t': 'pybool', 'v': False}, {'t': 'indexobj', 'v': 1}, {'t': 'indexobj', 'v': -1}, {'t': 'indexobj-reentrant', 'v': 0}]
    # mode / context combinations with fixed accesses: a refused write on a read-only handle followed by a write inside an explicit
    # read-write block; reads inside read-only blocks and under read-only iterators; a read-write request nested in a read-only block
    W = {'k': 'set', 'idx': {'t': 'int', 'v': 0}, 'val': {'k': 'scalar', 's': 9}}
    R = [{'k': 'get', 'idx': {'t': 'slice', 'v': [None, None, None]}}, {'k': 'get', 'idx': {'t': 'slice', 'v': [0, 2, None]}},
         {'k': 'get', 'idx': {'t': 'tuple', 'v': [{'t': 'ell'}]}}, {'k': 'get', 'idx': {'t': 'intarr', 'v': [0]}}]
    X = {'k': 'exit', 'how': 'close'}
    for shape in ([3], [1, 2], [0, 2], [4, 2, 2], [3, 0]):
        for t, bo in (('int32', '<'), ('float32', '>')):
            base = {'dt': {'t': t, 'bo': bo}, 'shape': shape, 'seed': 12}
            for via in ('ctx', 'iter'):
                yield dict(base, mode='r', ops=[W, {'k': 'enter', 'via': via, 'mode': 'r+'}, W] + R + [X, W])
                yield dict(base, mode='r+', via='temparray', ops=R + [W, {'k': 'get', 'idx': {'t': 'int', 'v': 99}}, {'k': 'enter', 'via': via, 'mode': None}] + R + [X, W] + R)
                yield dict(base, mode='r', ops=[{'k': 'enter', 'via': via, 'mode': None}] + R + [W, X] + R)
                yield dict(base, mode='r+', ops=[{'k': 'enter', 'via': via, 'mode': 'r'}] + R + [{'k': 'enter', 'via': 'ctx', 'mode': 'r+'}, W, X, X, W] + R)
                yield dict(base, mode='r+', ops=[{'k': 'enter', 'via': via, 'mode': 'r'}, W, X, {'k': 'setmode', 'm': 'r'}, W, {'k': 'setmode', 'm': 'r+'}, W])
                yield dict(base, mode='r', ops=[{'k': 'enter', 'via': 'ctx', 'mode': 'r'}, {'k': 'enter', 'via': via, 'mode': 'r+'}] + R + [X, X, {'k': 'setmode', 'm': 'r+'}, W])
    for shape in ([3], [3, 2], [0, 2], [1, 2], [3, 1, 2], [3, 2, 2, 2], [3, 0], [2, 0, 4]):
        for t, bo in (('int16', '>'), ('float64', '<'), ('complex64', '>'), ('uint8', '<')):
            for c in comps:
                for ctxm in ('none', 'open', 'nested'):
                    acc = [{'k': 'get', 'idx': c}, {'k': 'set', 'idx': c, 'val': {'k': 'scalar', 's': 5}},
                           {'k': 'set', 'idx': c, 'val': {'k': 'otherdt', 's': 6}}, {'k': 'get', 'idx': {'t': 'tuple', 'v': [c, {'t': 'ell'}]}},
                           {'k': 'set', 'idx': c, 'val': {'k': 'wrongshape', 's': 7}}]
                    yield {'dt': {'t': t, 'bo': bo}, 'shape': shape, 'seed': 11, 'acc': acc, 'ctx': ctxm, 'mode': 'r+'}
                    if ctxm != 'none' and c['t'] in ('int', 'slice', 'mask'):
                        yield {'dt': {'t': t, 'bo': bo}, 'shape': shape, 'seed': 11, 'acc': [{'k': 'iterclose', 'how': 'close'}] + acc,
                               'ctx': ctxm, 'mode': 'r', 'cmode': 'r+'}


def task_fixed(ctx, col, shard):
    enum_search(ctx, col, (s for i, s in enumerate(fixed_specs()) if i % NSHARDS == shard), lambda s: execute(ctx, s))


def task_random(ctx, col, shard, n):
    hyp_search(ctx, col, st_case(), lambda s: execute(ctx, s), shard_seed(ctx, shard), n)


def tasks(ctx):
    t = []
    for sh in range(NSHARDS):
        t.append((task_fixed, dict(shard=sh)))
        t.append((task_random, dict(shard=sh, n=ctx.pick(1200, 8000))))
    return t
