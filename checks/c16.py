"""C16 - deletion and creation never destroy data that is not theirs to destroy.

Generated placements of foreign content (file, nested directory, symlinks to a
file / directory / nothing, entries whose name collides with a Darr file name
but are of another type) in an array directory and its values/ indices/
sub-directories, crossed with delete_array / delete_raggedarray in three call
forms and with the seven creating functions x overwrite flag x previous
occupant.  Oracle: recursive byte snapshot (content, kind, link target) of the
target and of its parent directory before and after.
"""
import os, itertools, pathlib
import numpy as np
from hypothesis import strategies as st
from vlib.runner import Outcome, hyp_search, enum_search, shard_seed, NSHARDS
from vlib.snap import snapshot, diff

PROPERTY = 'C16'
LEVEL = 'exploration'
RULE = ("case = delete: target {Array with metadata, RaggedArray, plain dir, file, missing} x function x call form {object, str, "
        "Path} x 0-3 foreign entries {file, dir, symlink->file, symlink->dir, dangling symlink, colliding name as symlink/dir} at "
        "{top, values/, indices/}; create: function {asarray, create_array, asraggedarray, create_raggedarray, Array.copy, "
        "RaggedArray.copy, archive} x overwrite x occupant {none, Array+metadata, larger Array, RaggedArray, plain file, foreign "
        "dir} x foreign entries; oracle = snapshot of target and parent: TypeError/OSError classes as stated, foreign entries "
        "byte-identical, overwrite=False changes nothing, success yields the requested array; non-trivial = a foreign entry or an "
        "existing occupant; distinct = canonical spec")
ASSUMPTIONS = ["a symlink whose name collides with a Darr file name counts as foreign content",
               "Darr's own regular files may be gone after a delete that raises OSError because of foreign entries (the property allows it)"]
EXHAUSTIVE = None
FKINDS = ['file', 'dir', 'symfile', 'symdir', 'dangling', 'collide-symlink', 'collide-dir', 'casevariant', 'nearname', 'nested-darr']
CREATORS = ['asarray', 'create_array', 'asraggedarray', 'create_raggedarray', 'Array.copy', 'RaggedArray.copy', 'archive']
FAILS = [None, 'iter-raises-later', 'bad-later-item']
OCCUPANTS = ['none', 'array', 'array-large', 'ragged', 'file', 'dir']
MUST_HIT = (['archive:spelling', 'delete:stale-object', 'create:failing-input'] + [f'foreign:{k}' for k in FKINDS] + ['where:values', 'where:indices', 'where:top', 'delete:success', 'delete:foreign->OSError',
            'delete:wrongkind->TypeError', 'form:obj', 'form:str', 'form:path'] +
            [f'create:{c}:ow={o}' for c in CREATORS for o in (False, True)] + [f'occupant:{o}' for o in OCCUPANTS])


@st.composite
def st_foreign(draw, ragged):
    return {'kind': draw(st.sampled_from(FKINDS)),
            'where': draw(st.sampled_from(['top', 'top', 'values', 'indices'] if ragged else ['top'])),
            'n': draw(st.integers(0, 3))}


@st.composite
def st_case(draw):
    fam = draw(st.sampled_from(['delete', 'create', 'create']))
    if fam == 'delete':
        target = draw(st.sampled_from(['array', 'array', 'ragged', 'ragged', 'plaindir', 'file', 'missing']))
        return {'fam': 'delete', 'target': target, 'func': draw(st.sampled_from(['delete_array', 'delete_raggedarray'])),
                'form': draw(st.sampled_from(['obj', 'str', 'path', 'stale-obj', 'symlink', 'symlink-path', 'dot'])),
                'foreign': draw(st.lists(st_foreign(target == 'ragged'), max_size=3)), 'meta': draw(st.booleans())}
    occ = draw(st.sampled_from(OCCUPANTS))
    return {'fam': 'create', 'func': draw(st.sampled_from(CREATORS)), 'overwrite': draw(st.booleans()), 'occupant': occ,
            'foreign': draw(st.lists(st_foreign(occ == 'ragged'), max_size=3)) if occ in ('array', 'array-large', 'ragged', 'dir') else [],
            'meta': draw(st.booleans()), 'newmeta': draw(st.booleans()), 'fail': draw(st.sampled_from([None, None, None] + FAILS[1:])),
            'owspell': draw(st.sampled_from([0, 0, 1, 2, 3]))}


DARRNAMES = ['metadata.json', 'README.txt', 'arraydescription.json', 'arrayvalues.bin']


def place_foreign(base, outside, f, i, out):
    """Create one foreign entry below directory `base`; returns its name (relative to base) or None."""
    k = f['kind']
    out.cls('foreign:' + k)
    name = {'file': f'notes{i}.txt', 'dir': f'extra{i}', 'symfile': f'lnk{i}', 'symdir': f'lnkd{i}', 'dangling': f'dang{i}',
            'casevariant': ['Readme.txt', 'Metadata.JSON', 'ARRAYVALUES.BIN', 'arraydescription.JSON'][(i + f['n']) % 4]}.get(k)
    if k == 'nearname':
        # user files whose names are derived from Darr's own: backup / temporary / lock / hidden variants
        base_ = DARRNAMES[(i + f['n']) % 4]
        name = [base_ + '.tmp', base_ + '~', base_ + '.bak', '.' + base_ + '.swp', base_ + '.lock', base_ + '.new', base_ + '.old', 'tmp' + base_,
                base_ + '.part', '.' + base_][(i * 3 + f['n'] // 4) % 10]
    if k == 'nested-darr':
        # the user keeps another (valid) Darr array inside this array's directory
        import darr
        name = ['spectrogram', 'derived', 'old'][(i + f['n']) % 3] + f'{i}' + ['.darr', ''][(i + f['n']) % 2]
        if os.path.lexists(os.path.join(base, name)):
            return None
        if (i + f['n']) % 2:
            darr.asarray(os.path.join(base, name), np.arange(4, dtype='float32'), metadata={'mine': 1})
        else:
            darr.asraggedarray(os.path.join(base, name), [[1, 2], [3]], dtype='int8')
        return name
    if k in ('file', 'casevariant', 'nearname'):
        with open(os.path.join(base, name), 'wb') as fh:
            fh.write(b'user data %d' % i)
    elif k == 'dir':
        os.mkdir(os.path.join(base, name))
        with open(os.path.join(base, name, 'inner.bin'), 'wb') as fh:
            fh.write(b'\x00\x01inner')
    elif k == 'symfile':
        os.symlink(os.path.join(outside, 'precious.txt'), os.path.join(base, name))
    elif k == 'symdir':
        os.symlink(os.path.join(outside, 'preciousdir'), os.path.join(base, name))
    elif k == 'dangling':
        os.symlink(os.path.join(outside, 'does-not-exist'), os.path.join(base, name))
    else:
        # a Darr file name, but not a regular file; pick one that is free, else replace metadata.json
        cands = [n for n in DARRNAMES if not os.path.lexists(os.path.join(base, n))]
        name = cands[f['n'] % len(cands)] if cands else None
        if name is None:
            return None
        if k == 'collide-symlink':
            os.symlink(os.path.join(outside, 'precious.txt'), os.path.join(base, name))
        else:
            os.mkdir(os.path.join(base, name))
            with open(os.path.join(base, name, 'keep.txt'), 'wb') as fh:
                fh.write(b'keep')
    return name


def make_occupant(kind, path, meta):
    import darr
    md = {'who': 'occupant', 'n': [1, 2, 3]} if meta else None
    if kind in ('array', 'array-large'):
        n = 5 if kind == 'array' else 500
        darr.asarray(path, np.arange(n, dtype='int32'), metadata=md)
    elif kind == 'ragged':
        darr.asraggedarray(path, [[1, 2], [3], []], dtype='float32', metadata=md)
    elif kind in ('plaindir', 'dir'):
        os.mkdir(path)
        with open(os.path.join(path, 'data.csv'), 'wb') as f:
            f.write(b'1,2,3\n')
    elif kind == 'file':
        with open(path, 'wb') as f:
            f.write(b'just a file')


def foreign_subset(snap, names):
    """Entries of a snapshot belonging to the foreign names (and anything below them)."""
    return {k: v for k, v in snap.items() if any(k == n or k.startswith(n + '/') for n in names)}


def execute(ctx, spec):
    if spec.get('f') == 'archive-spelling':
        # archive() given a path spelling ('~/x', './x', relative, absolute) with older files at every place the spelling could
        # be taken to mean: shared with C15 (same clause: an existing path is not replaced without overwrite=True)
        from checks import c15
        return c15._exec_archive_spelling(ctx, spec)
    import darr
    out = Outcome()
    with ctx.scratch() as d:
        parent = os.path.join(d, 'parent')
        outside = os.path.join(d, 'outside')
        os.mkdir(parent)
        os.mkdir(outside)
        with open(os.path.join(outside, 'precious.txt'), 'wb') as f:
            f.write(b'precious user data')
        os.mkdir(os.path.join(outside, 'preciousdir'))
        with open(os.path.join(outside, 'preciousdir', 'p.bin'), 'wb') as f:
            f.write(b'\x01\x02\x03')
        # an unrelated sibling that must never change
        darr.asarray(os.path.join(parent, 'sibling.darr'), np.arange(3, dtype='uint8'), metadata={'s': 1})
        path = os.path.join(parent, 'x.darr')
        occ = spec['target'] if spec['fam'] == 'delete' else spec['occupant']
        if occ not in ('none', 'missing'):
            make_occupant(occ, path, spec.get('meta', False))
        out.cls('occupant:' + occ if spec['fam'] == 'create' else 'target:' + occ)
        fnames = []
        if os.path.isdir(path):
            for i, f in enumerate(spec['foreign']):
                sub = {'top': '', 'values': 'values', 'indices': 'indices'}[f['where']]
                base = os.path.join(path, sub)
                if not os.path.isdir(base):
                    base, sub = path, ''
                out.cls('where:' + (f['where'] if sub else 'top'))
                nm = place_foreign(base, outside, f, i, out)
                if nm:
                    fnames.append(os.path.join('x.darr', sub, nm).replace('//', '/') if sub else 'x.darr/' + nm)
        if occ in ('plaindir', 'dir'):
            fnames.append('x.darr/data.csv')
        out.nontrivial = bool(fnames) or occ not in ('none', 'missing')
        before_p = snapshot(parent)
        before_o = snapshot(outside)
        if spec['fam'] == 'delete':
            _delete(spec, path, parent, outside, occ, fnames, before_p, before_o, out)
        else:
            _create(spec, path, parent, outside, occ, fnames, before_p, before_o, out, d)
    return out


def _foreign_ok(out, tag, before_p, before_o, parent, outside, fnames, sigtag=None):
    after_p, after_o = snapshot(parent), snapshot(outside)
    if after_o != before_o:
        out.viol('colliding-symlink-not-preserved' if sigtag else 'symlink-target-changed', sigtag or tag,
                 f'{tag}: link target modified: ' + '; '.join(diff(before_o, after_o)))
        return False
    fb, fa = foreign_subset(before_p, fnames), foreign_subset(after_p, fnames)
    if fb != fa:
        d_ = diff(fb, fa)
        # only entries that are symlinks carrying one of Darr's file names were touched?
        changed = [k for k in set(fb) | set(fa) if fb.get(k) != fa.get(k)]
        only_collide = bool(sigtag) and all(os.path.basename(k) in DARRNAMES and fb.get(k, ('',))[0] == 'link' for k in changed)
        if only_collide:
            out.viol('colliding-symlink-not-preserved', sigtag, f'{tag}: ' + '; '.join(d_))
        else:
            out.viol('foreign-entry-changed', tag, '; '.join(d_))
        return False
    sb, sa = foreign_subset(before_p, ['sibling.darr']), foreign_subset(after_p, ['sibling.darr'])
    if sb != sa:
        out.viol('sibling-changed', tag, '; '.join(diff(sb, sa)))
        return False
    return True


def _delete(spec, path, parent, outside, occ, fnames, before_p, before_o, out):
    import darr
    func = getattr(darr, spec['func'])
    right = (occ == 'array' and spec['func'] == 'delete_array') or (occ == 'ragged' and spec['func'] == 'delete_raggedarray')
    form = spec['form']
    out.cls('form:' + form)
    tag = f"{spec['func']}:{occ}"
    arg = path if form == 'str' else pathlib.Path(path)
    alias, oldcwd = form in ('symlink', 'symlink-path', 'dot') and os.path.isdir(path), None
    if form in ('symlink', 'symlink-path', 'dot') and not alias:
        form = 'str'
    if alias:
        # the array named through another spelling of its directory: a symbolic link to it (kept in a directory of its own), or
        # '.' with the array directory as the working directory.  Refusing such a call is fine; a call that returns normally has
        # deleted the array ('after a successful delete nothing of the array remains')
        if form == 'dot':
            oldcwd = os.getcwd()
            os.chdir(path)
            arg = '.'
        else:
            ldir = os.path.join(os.path.dirname(parent), 'links')
            os.mkdir(ldir)
            os.symlink(path, os.path.join(ldir, 'alias.darr'))
            arg = os.path.join(ldir, 'alias.darr') if form == 'symlink' else pathlib.Path(ldir) / 'alias.darr'
    if form == 'stale-obj':
        if not right:
            form = 'str'
        else:
            return _delete_stale(spec, path, parent, outside, occ, out)
    if form == 'obj':
        if not right:
            form = 'str'
            arg = path
        else:
            try:
                arg = (darr.Array if occ == 'array' else darr.RaggedArray)(path, accessmode='r+')
            except Exception as e:
                # foreign name collisions can make the directory unopenable; then the by-path form must refuse it
                arg = path
    try:
        func(arg)
        exc = None
    except Exception as e:
        exc = e
    finally:
        if oldcwd is not None:
            os.chdir(oldcwd)
    after_p = snapshot(parent)
    if not right:
        out.cls('delete:wrongkind->TypeError')
        if not isinstance(exc, TypeError):
            out.viol('wrong-kind-not-refused', tag, f'expected TypeError, got {type(exc).__name__ if exc else "no exception"}: {exc}')
            return
        if after_p != before_p or snapshot(outside) != before_o:
            out.viol('refused-but-changed', tag, '; '.join(diff(before_p, after_p)))
        return
    if not _foreign_ok(out, tag + ':' + '+'.join(sorted({f["kind"] for f in spec["foreign"]})), before_p, before_o, parent, outside, fnames):
        return
    if fnames:
        out.cls('delete:foreign->OSError')
        if isinstance(exc, TypeError) and any(f['kind'].startswith('collide') for f in spec['foreign']):
            # a colliding entry can make the directory unrecognisable as an array: refusal is legitimate, nothing may change
            if after_p != before_p:
                out.viol('refused-but-changed', tag, '; '.join(diff(before_p, after_p)))
            return
        if not isinstance(exc, OSError):
            out.viol('foreign-content-no-oserror', tag, f'expected OSError, got {type(exc).__name__ if exc else "no exception"}: {exc}')
    else:
        out.cls('delete:success')
        if alias and exc is not None:
            out.cls('delete:alias-spelling-refused')
            return
        if exc is not None:
            out.viol('delete-raised', f'{tag}:{type(exc).__name__}', f'{type(exc).__name__}: {exc}')
            return
        if os.path.lexists(path):
            out.viol('delete-left-something', tag, str(sorted(os.listdir(path)) if os.path.isdir(path) else path))
            return
        rest_b = {k: v for k, v in before_p.items() if not (k == 'x.darr' or k.startswith('x.darr/'))}
        rest_a = {k: v for k, v in after_p.items() if not (k == 'x.darr' or k.startswith('x.darr/'))}
        if rest_a != rest_b:
            out.viol('delete-touched-parent', tag, '; '.join(diff(rest_b, rest_a)))


def _delete_stale(spec, path, parent, outside, occ, out):
    """delete called with a handle that outlived its array: the path now holds something else, which must be refused and untouched."""
    import darr, shutil
    out.cls('delete:stale-object')
    h = (darr.Array if occ == 'array' else darr.RaggedArray)(path, accessmode='r+')
    func = getattr(darr, spec['func'])
    n = sum(f['n'] for f in spec['foreign']) + len(spec['foreign'])
    how = ['user-dir', 'other-kind'][n % 2]
    if how == 'user-dir':
        shutil.rmtree(path)
        os.mkdir(path)
        for nm, content in (('README.txt', b'my own readme'), ('metadata.json', b'{"mine": true}'), ('results.csv', b'1,2\n')):
            with open(os.path.join(path, nm), 'wb') as f:
                f.write(content)
        if occ == 'ragged':
            os.mkdir(os.path.join(path, 'values'))
            with open(os.path.join(path, 'values', 'README.txt'), 'wb') as f:
                f.write(b'mine too')
    else:
        try:
            if occ == 'array':
                darr.asraggedarray(path, [[1, 2], [3]], dtype='int8', overwrite=True, metadata={'now': 'ragged'})
            else:
                darr.asarray(path, np.arange(4, dtype='int8'), overwrite=True, metadata={'now': 'array'})
        except Exception:
            out.nontrivial = False      # a colliding foreign entry prevents (or garbles) the re-creation: not this scenario
            return
    before = snapshot(parent)
    try:
        func(h)
        exc = None
    except Exception as e:
        exc = e
    after = snapshot(parent)
    tag = f"{spec['func']}:stale-object:{how}"
    if exc is None:
        out.viol('stale-object-not-refused', tag, 'delete with a handle whose array no longer exists returned normally')
    if after != before:
        out.viol('stale-object-delete-changed-files', tag, '; '.join(diff(before, after)))


def _create(spec, path, parent, outside, occ, fnames, before_p, before_o, out, d):
    import darr
    func, ow = spec['func'], spec['overwrite']
    out.cls(f'create:{func}:ow={ow}')
    newmd = {'new': True, 'v': 2} if spec['newmeta'] else None
    tag = f'{func}:ow={ow}:{occ}'
    src = None
    want = None
    k_ = spec.get('owspell', 0)
    kw = dict(overwrite=([True, 1, np.True_, np.bool_(1)] if ow else [False, 0, np.False_, np.bool_(0)])[k_ % 4])       # the flag, spelled as a bool / int / NumPy bool
    if k_ % 4:
        out.cls('overwrite-flag-spelling')
    try:
        if func in ('Array.copy', 'archive'):
            src = darr.asarray(os.path.join(d, 'src.darr'), np.arange(4, dtype='int16') * 3, metadata=newmd)
        if func == 'RaggedArray.copy':
            src = darr.asraggedarray(os.path.join(d, 'src.darr'), [[7, 8], [9]], dtype='int16', metadata=newmd)
        target = path
        if func == 'archive':
            target = path      # archive file path
    except Exception as e:
        raise
    fail = spec.get('fail') if func in ('asarray', 'asraggedarray') else None

    class _Boom(Exception):
        pass

    def failing(items):
        yield items[0]
        if fail == 'iter-raises-later':
            raise _Boom('input iterable failed')
        yield np.zeros((2, 5, 5), dtype='int16')     # cannot be appended to what the first item started
    if fail:
        out.cls('create:failing-input')
    try:
        if func == 'asarray' and fail:
            r = darr.asarray(path, failing([np.arange(4, dtype='int16')]), metadata=newmd, **kw)
            want = None
        elif func == 'asraggedarray' and fail:
            r = darr.asraggedarray(path, failing([np.array([7, 8], dtype='int16')]), dtype='int16', metadata=newmd, **kw)
            want = None
        elif func == 'asarray':
            r = darr.asarray(path, np.arange(4, dtype='int16') * 3, metadata=newmd, **kw)
            want = ('Array', (np.arange(4, dtype='int16') * 3))
        elif func == 'create_array':
            r = darr.create_array(path, shape=(4,), dtype='int16', fill=6, metadata=newmd, chunklen=2, **kw)
            want = ('Array', np.full(4, 6, 'int16'))
        elif func == 'asraggedarray':
            r = darr.asraggedarray(path, [[7, 8], [9]], dtype='int16', metadata=newmd, **kw)
            want = ('RaggedArray', [[7, 8], [9]])
        elif func == 'create_raggedarray':
            r = darr.create_raggedarray(path, atom=(), dtype='int16', metadata=newmd, **kw)
            want = ('RaggedArray', [])
        elif func == 'Array.copy':
            r = src.copy(path, **kw)
            want = ('Array', (np.arange(4, dtype='int16') * 3))
        elif func == 'RaggedArray.copy':
            r = src.copy(path, **kw)
            want = ('RaggedArray', [[7, 8], [9]])
        else:
            r = src.archive(filepath=path, compressiontype='gz', **kw)
            want = ('archive', None)
        exc = None
    except Exception as e:
        exc = e
    after_p = snapshot(parent)
    if occ != 'none' and not ow:
        if exc is None:
            out.viol('overwrite-false-did-not-raise', tag, 'existing path, overwrite=False, no exception')
            return
        if after_p != before_p or snapshot(outside) != before_o:
            out.viol('overwrite-false-changed', tag, '; '.join(diff(before_p, after_p)))
        return
    fk = sorted({f["kind"] for f in spec["foreign"]})
    sig = f'{func}:overwrite=True:colliding-symlink' if 'collide-symlink' in fk else None
    if not _foreign_ok(out, tag + ':' + '+'.join(fk), before_p, before_o, parent, outside, fnames, sigtag=sig):
        return
    if fail:
        if exc is None:
            out.viol('failing-input-accepted', f'{func}:{fail}', 'creation from an input that fails part-way returned normally')
        return       # foreign data survived (checked above); what is left of Darr's own files is not claimed here
    if exc is not None:
        if occ == 'none':
            out.viol('create-raised', f'{tag}:{type(exc).__name__}', f'{type(exc).__name__}: {exc}')
        return       # with an occupant, raising is allowed as long as foreign data survived
    # success: the path must now hold the requested object with exactly the requested metadata
    if want[0] == 'archive':
        import tarfile
        try:
            with tarfile.open(path) as tf:
                names = tf.getnames()
            if not any(n.endswith('arrayvalues.bin') for n in names):
                out.viol('archive-incomplete', tag, str(names))
        except Exception as e:
            out.viol('archive-unreadable', tag, f'{type(e).__name__}: {e}')
        return
    try:
        o = darr.open(path)
    except Exception as e:
        out.viol('result-unopenable', f'{tag}:{type(e).__name__}', f'{type(e).__name__}: {e}')
        return
    if type(o).__name__ != want[0]:
        out.viol('result-wrong-kind', tag, f'{type(o).__name__} instead of {want[0]}')
        return
    if want[0] == 'Array':
        if o[:].tolist() != want[1].tolist() or o.dtype != want[1].dtype:
            out.viol('result-wrong-content', tag, f'{o[:]!r:.100}')
            return
    else:
        got = [o[k].tolist() for k in range(len(o))]
        if got != want[1]:
            out.viol('result-wrong-content', tag, f'{got}')
            return
    if dict(o.metadata) != (newmd or {}):
        out.viol('result-wrong-metadata', tag, f'{dict(o.metadata)} instead of {newmd or {}}')


def grid():
    for func, ow, occ in itertools.product(CREATORS, (False, True), OCCUPANTS):
        for fk in [None] + FKINDS:
            if fk and occ not in ('array', 'array-large', 'ragged', 'dir'):
                continue
            for where in (['top'] if occ != 'ragged' else ['top', 'values', 'indices']):
                yield {'fam': 'create', 'func': func, 'overwrite': ow, 'occupant': occ, 'meta': True, 'newmeta': fk != 'file',
                       'foreign': [{'kind': fk, 'where': where, 'n': 0}] if fk else []}
                if not fk:
                    for k_ in (1, 2, 3):        # overwrite given as 1 / np.True_ / np.bool_(1) (0 / np.False_ / np.bool_(0))
                        yield {'fam': 'create', 'func': func, 'overwrite': ow, 'occupant': occ, 'meta': True, 'newmeta': True, 'foreign': [], 'owspell': k_}
                    break
    # every name derived from one of Darr's own (x.tmp, x~, x.bak, .x.swp, x.lock, x.new, x.old, tmpx, x.part, .x) next to every creator
    for func, occ, n in itertools.product(CREATORS, ['array', 'ragged'], range(40)):
        for where in (['top'] if occ != 'ragged' else ['top', 'values', 'indices']):
            yield {'fam': 'create', 'func': func, 'overwrite': True, 'occupant': occ, 'meta': True, 'newmeta': n % 2 == 0,
                   'foreign': [{'kind': 'nearname', 'where': where, 'n': n}]}
    for func, occ, fail in itertools.product(['asarray', 'asraggedarray'], ['array', 'ragged', 'dir'], FAILS[1:]):
        for fk in FKINDS:
            for where in (['top'] if occ != 'ragged' else ['top', 'values', 'indices']):
                yield {'fam': 'create', 'func': func, 'overwrite': True, 'occupant': occ, 'meta': True, 'newmeta': False, 'fail': fail,
                       'foreign': [{'kind': fk, 'where': where, 'n': 0}]}
    for target, func in (('array', 'delete_array'), ('ragged', 'delete_raggedarray'), ('array', 'delete_raggedarray'), ('ragged', 'delete_array'), ('plaindir', 'delete_array')):
        for form in ('symlink', 'symlink-path', 'dot'):
            for fk in (None, 'file', 'dir'):
                yield {'fam': 'delete', 'target': target, 'func': func, 'form': form, 'meta': fk is None, 'foreign': [{'kind': fk, 'where': 'top', 'n': 0}] if fk else []}
    for target, func in (('array', 'delete_array'), ('ragged', 'delete_raggedarray')):
        for n in (0, 1):
            yield {'fam': 'delete', 'target': target, 'func': func, 'form': 'stale-obj', 'meta': True, 'foreign': [{'kind': 'file', 'where': 'top', 'n': n}][:n] if n == 0 else [{'kind': 'file', 'where': 'top', 'n': 0}]}
    for target, func, form in itertools.product(['array', 'ragged', 'plaindir', 'file', 'missing'], ['delete_array', 'delete_raggedarray'],
                                                ['obj', 'str', 'path']):
        for fk in [None] + FKINDS:
            for where in (['top'] if target != 'ragged' else ['top', 'values', 'indices']):
                yield {'fam': 'delete', 'target': target, 'func': func, 'form': form, 'meta': True,
                       'foreign': [{'kind': fk, 'where': where, 'n': 1}] if fk else []}
                if not fk:
                    break


def task_grid(ctx, col, shard):
    from checks import c15
    enum_search(ctx, col, (s for i, s in enumerate(c15.spelling_grid()) if i % NSHARDS == shard), lambda s: execute(ctx, s))
    enum_search(ctx, col, (s for i, s in enumerate(grid()) if i % NSHARDS == shard), lambda s: execute(ctx, s))


def task_random(ctx, col, shard, n):
    hyp_search(ctx, col, st_case(), lambda s: execute(ctx, s), shard_seed(ctx, shard), n)


def tasks(ctx):
    global EXHAUSTIVE
    EXHAUSTIVE = "single-foreign-entry grid: 7 creators x overwrite x 6 occupants x 8 foreign kinds x location; 5 targets x 2 delete functions x 3 call forms x 8 foreign kinds x location"
    t = []
    for sh in range(NSHARDS):
        t.append((task_grid, dict(shard=sh)))
        t.append((task_random, dict(shard=sh, n=ctx.pick(400, 3000))))
    return t
