#!/bin/bash
# tools/seedeval.sh <ID> <seeddir> <name>  : confirm a sub-agent's seeded change and run the check against it.
# Writes /verif/seeded/<name>/{patch.diff,demo.py,meta.json,confirm.txt}; prints one summary line.
DIR="$(cd "$(dirname "${BASH_SOURCE[0]}")/.." && pwd)"
ID="$1"; SD="$(realpath "$2")"; NAME="$3"; CHECKS="${4:-$ID}"
W=$(mktemp -d /dev/shm/seed.XXXXXX); trap 'rm -rf "$W"' EXIT
mkdir -p "$W/clean" "$W/mut" "$W/tmp"; export TMPDIR="$W/tmp"   # suite and demos leave mkdtemp directories behind: keep them in the scratch copy
(cd /repo && git ls-files -z | xargs -0 cp --parents -t "$W/clean"); cp -r "$W/clean/." "$W/mut/"
(cd "$W/mut" && git init -q . >/dev/null 2>&1; git apply --whitespace=nowarn "$SD/patch.diff" 2>"$W/apply.err" || patch -p1 -s < "$SD/patch.diff" 2>>"$W/apply.err") || { echo "SEED $NAME: PATCH-DOES-NOT-APPLY $(head -2 $W/apply.err)"; exit 2; }
rm -rf "$W/mut/.git"
OUT="$DIR/seeded/$NAME"; mkdir -p "$OUT"; cp "$SD/patch.diff" "$SD/demo.py" "$OUT/"; cp "$SD/meta.json" "$OUT/agent_meta.json"
( cd "$W/mut" && PYTHONPATH="$W/mut" PYTHONDONTWRITEBYTECODE=1 /venv/bin/python -m pytest -q -p no:cacheprovider --timeout=900 -x 2>&1 | tail -1 ) > "$W/suite.txt"
( cd "$W" && PYTHONPATH="$W/clean" PYTHONDONTWRITEBYTECODE=1 timeout 300 /venv/bin/python "$SD/demo.py" >"$W/demo_clean.txt" 2>&1; echo $? > "$W/demo_clean.rc" )
( cd "$W" && PYTHONPATH="$W/mut" PYTHONDONTWRITEBYTECODE=1 timeout 300 /venv/bin/python "$SD/demo.py" >"$W/demo_mut.txt" 2>&1; echo $? > "$W/demo_mut.rc" )
RES=""
for C in $CHECKS; do
  CO=$(DARR_SRC="$W/mut" VERIF_EVIDENCE_DIR="$W/ev" "$DIR/check" "$C" --tier quick 2>&1); RC=$?
  rm -f "$DIR"/replays/"$C"/found-*.json
  if [ $RC -eq 1 ]; then RES="$RES $C=CAUGHT[$(echo "$CO" | grep -A1 '^VIOLATION' | sed -n 2p | sed 's/^ *//')]"; else RES="$RES $C=MISSED(rc=$RC)"; fi
done
{ echo "suite with change: $(cat $W/suite.txt)"; echo "demo on clean tree: exit $(cat $W/demo_clean.rc)"; echo "demo with change: exit $(cat $W/demo_mut.rc)"; echo "checks:$RES"; } > "$OUT/confirm.txt"
echo "SEED $NAME: suite=[$(cat $W/suite.txt)] demo_clean=$(cat $W/demo_clean.rc) demo_mut=$(cat $W/demo_mut.rc) ->$RES"
