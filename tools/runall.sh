#!/bin/bash
# tools/runall.sh [tier] : run every registered check in /verif against /repo (evidence/ is rewritten); summary at the end.
DIR="$(cd "$(dirname "${BASH_SOURCE[0]}")/.." && pwd)"; cd "$DIR"
TIER="${1:-quick}"; FAIL=0
for id in C01 C02 C03 C04 C05 C06 C07 C08 C09 C10 C11 C12 C13 C14 C15 C16 C17 C18 C19 C20; do
  T0=$(date +%s); OUT=$(./check $id --tier $TIER 2>&1); RC=$?; T1=$(date +%s)
  echo "$id rc=$RC $((T1-T0))s $(echo "$OUT" | grep -c '^KNOWN-FINDING') known :: $(echo "$OUT" | grep -v '^KNOWN-FINDING' | tail -1 | cut -c1-140)"
  [ $RC -ne 0 ] && { FAIL=1; echo "$OUT" | grep -A3 -E '^VIOLATION|HARNESS' | head -12; }
done
exit $FAIL
