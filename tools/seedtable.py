#!/venv/bin/python
"""tools/seedtable.py <substring> : markdown table rows (as in DESIGN.md 8.6) for the seeds whose name contains <substring>."""
import json, os, sys, glob, re
HOME = os.path.dirname(os.path.dirname(os.path.abspath(__file__)))
pat = sys.argv[1] if len(sys.argv) > 1 else ''


def ab(s, n):
    s = ' '.join(str(s or '').split())
    return s if len(s) <= n else s[:n].rstrip() + ' …'


for d in sorted(glob.glob(os.path.join(HOME, 'seeded', '*'))):
    name = os.path.basename(d)
    if pat not in name:
        continue
    m = json.load(open(os.path.join(d, 'meta.json')))
    checks = next((l for l in m['confirmed_by_me']['results'] if l.startswith('checks:')), '')
    kinds = re.findall(r'(C\d\d)=CAUGHT\[kind=([\w-]+)', checks)
    caught = ', '.join(f'{c} ({k})' for c, k in kinds) or 'MISSED'
    print(f"| {name} | {ab(m.get('summary'), 150)} | {ab(m.get('needs'), 120)} | {caught} |")
