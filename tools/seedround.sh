#!/bin/bash
# tools/seedround.sh <ID> <round-tag> <seed-root> ["checks"] : evaluate every _seed/<x> of one sub-agent worktree in parallel
DIR="$(cd "$(dirname "${BASH_SOURCE[0]}")/.." && pwd)"
ID="$1"; TAG="$2"; ROOT="${3:-/tmp/seed3}"; CHECKS="${4:-$ID}"
for x in $(ls "$ROOT/$ID/_seed" | grep -E '^[a-z]$'); do
  [ -f "$ROOT/$ID/_seed/$x/patch.diff" ] || continue
  "$DIR/tools/seedeval.sh" "$ID" "$ROOT/$ID/_seed/$x" "$ID-$TAG$x" "$CHECKS" &
done
wait
