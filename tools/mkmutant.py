#!/venv/bin/python
"""tools/mkmutant.py <name> <file-relative-to-repo> <old> <new> [<file2> <old2> <new2> ...]
Writes mutants/<name>.patch: a unified diff replacing the unique occurrence of <old> by <new>."""
import sys, difflib, os
HOME = os.path.dirname(os.path.dirname(os.path.abspath(__file__)))
name = sys.argv[1]
args = sys.argv[2:]
out = ''
i = 0
files = {}
while i < len(args):
    rel, old, new = args[i:i + 3]
    i += 3
    old = old.encode().decode('unicode_escape'); new = new.encode().decode('unicode_escape')
    src = files.get(rel) or open(os.path.join('/repo', rel)).read()
    if src.count(old) != 1:
        sys.exit(f'{rel}: pattern occurs {src.count(old)} times: {old!r}')
    files[rel] = src.replace(old, new)
for rel, dst in files.items():
    src = open(os.path.join('/repo', rel)).read()
    out += ''.join(difflib.unified_diff(src.splitlines(True), dst.splitlines(True), 'a/' + rel, 'b/' + rel))
open(os.path.join(HOME, 'mutants', name + '.patch'), 'w').write(out)
print(out)
