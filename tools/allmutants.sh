#!/bin/bash
# tools/allmutants.sh [tier] : run every mutants/<ID>-*.patch against check <ID>; write mutants/RESULTS.txt
DIR="$(cd "$(dirname "${BASH_SOURCE[0]}")/.." && pwd)"; cd "$DIR"
TIER="${1:-quick}"; OUT="$DIR/mutants/RESULTS.txt"; : > "$OUT.tmp"
for p in mutants/C??-*.patch; do
  id=$(basename "$p" | cut -c1-3)
  tools/mutant.sh "$p" "$id" "$TIER" | cut -c1-220 | tee -a "$OUT.tmp"
done
mv "$OUT.tmp" "$OUT"; echo "caught: $(grep -c '^CAUGHT' "$OUT") missed: $(grep -c '^MISSED' "$OUT")"
