#!/venv/bin/python
"""Self-test of the reference interpreters (the trusted base of C06/C07).

Hand-written programs per dialect with the result the language documentation
prescribes: positive cases (must evaluate to the given value) and negative cases
(must be rejected as IllFormed).  Run: tools/langtest.py   (exit 0 = all as expected)
"""
import os, sys, tempfile, shutil
HOME = os.path.dirname(os.path.dirname(os.path.abspath(__file__)))
sys.path.insert(0, HOME)
import numpy as np
from vlib.lang import dialects
from vlib.lang.core import IllFormed, NotUnderstood, flatF

d = tempfile.mkdtemp(prefix='langtest_', dir='/dev/shm' if os.path.isdir('/dev/shm') else None)
le = np.arange(1, 7, dtype='<i2')            # 1..6
le.tofile(os.path.join(d, 'le.bin'))
le.astype('>i2').tofile(os.path.join(d, 'be.bin'))
(np.arange(1, 7) * 0.5).astype('<f8').tofile(os.path.join(d, 'f8.bin'))
(np.arange(1, 4) + 1j * np.arange(4, 7)).astype('<c8').tofile(os.path.join(d, 'c8.bin'))
np.array([[0, 2], [2, 2], [2, 6]], dtype='<i4').tofile(os.path.join(d, 'idx.bin'))

POS = [
    # (language, program, variable, expected dims (None = scalar), expected flat values in the language's memory order)
    ('matlab', "f = fopen('le.bin');\na = fread(f, [3, 2], '*int16', 'ieee-le');\nfclose(f);", 'a', (3, 2), [1, 2, 3, 4, 5, 6]),
    ('matlab', "f = fopen('be.bin');\na = fread(f, 6, '*int16', 'ieee-be');\nb = a(2:3);", 'b', (2,), [2, 3]),
    ('matlab', "f = fopen('le.bin');\na = reshape(fread(f, 6, 'int16', 'l'), [1, 2, 3]);\nb = a(:,:,2);", 'b', (1, 2), [3, 4]),
    ('matlab', "f = fopen('c8.bin');\nre = fread(f, 3, '*float32', 4, 'ieee-le');\nfseek(f, 4, 'bof');\nim = fread(f, 3, '*float32', 4, 'ieee-le');\na = complex(re, im);", 'a', (3,), [1 + 4j, 2 + 5j, 3 + 6j]),
    ('matlab', "f = fopen('le.bin');\nv = fread(f, 6, '*int16', 'ieee-le');\ng = @(k) v(k+1:k+2);\nb = g(3);", 'b', (2,), [4, 5]),
    ('matlab', "f = fopen('le.bin');\nv = fread(f, [2, 3], '*int16', 'ieee-le');\nb = v(:, 3:2);", 'b', (2, 0), []),
    ('scilab', 'f = mopen("le.bin", "rb");\na = mgeti(6, "sl", f);\na = matrix(a, [2, 3]);\nmclose(f);\nb = a(:, 2:3);', 'b', (2, 2), [3, 4, 5, 6]),
    ('scilab', 'f = mopen("f8.bin", "rb");\na = mget(6, "dl", f);\ndeff("y = g(k)", "y = a(k+1)")\nb = g(2);', 'b', None, [1.5]),
    ('R', 'f <- file("be.bin", "rb")\na <- readBin(con=f, what=integer(), n=6, size=2, signed=TRUE, endian="big")\na <- array(data=a, dim=c(2, 3), dimnames=NULL)\nclose(f)\nb <- a[, 2:3]', 'b', (2, 2), [3, 4, 5, 6]),
    ('R', 'f <- file("le.bin", "rb")\na <- readBin(con=f, what=integer(), n=6, size=2, endian="little")\ng <- function(k){\n  s <- k + 1\n  if (s > 6) {\n    return (c())\n  } else {\n    return (a[s:6])\n  }\n}\nb = g(4)', 'b', (2,), [5, 6]),
    ('R', 'x <- 3:1', 'x', (3,), [3, 2, 1]),                                   # a:b descends when a > b
    ('julia_ver1', 'f = open("le.bin","r");\na = map(ltoh, read!(f, Array{Int16}(undef, 2, 3)));\nclose(f);\nb = a[:, 2:3]', 'b', (2, 2), [3, 4, 5, 6]),
    ('julia_ver1', 'f = open("be.bin","r");\na = map(ntoh, read!(f, Array{Int16}(undef, 6)));\nfunction g(k)\n    s = k+1\n    a[s:6]\nend\nb = g(4)', 'b', (2,), [5, 6]),
    ('julia_ver1', 'f = open("le.bin","r");\na = map(ltoh, read!(f, Array{Int16}(undef, 2, 3)));\nb = a[:, 3:2]', 'b', (2, 0), []),
    ('julia_ver1', 'using Mmap\nf = open("le.bin","r");\na = Mmap.mmap(f, Array{Int16,2}, (3, 2,));\nclose(f);', 'a', (3, 2), [1, 2, 3, 4, 5, 6]),     # host order = little-endian
    ('julia_ver1', 'using Mmap\nf = open("be.bin","r");\na = Mmap.mmap(f, Array{Int16,1}, (6,));\nb = a[2:3]', 'b', (2,), [512, 768]),            # no byte-order conversion
    ('julia_ver0', 'f = open("le.bin","r");\na = map(ltoh, read(f, Int16, (3, 2)));\nclose(f);', 'a', (3, 2), [1, 2, 3, 4, 5, 6]),
    ('idl', 'a = read_binary("be.bin", data_type=2, data_dims=[2, 3], endian="big")\nk = 1\nIF k EQ 5 THEN b=[] ELSE b=a[*,k:2]', 'b', (2, 2), [3, 4, 5, 6]),
    ('idl', 'a = read_binary("le.bin", data_type=2, data_dims=[6], endian="little")\nk = 5\nIF k EQ 5 THEN b=[] ELSE b=a[0:1]', 'b', 'NULL', []),
    ('mathematica', 'a = BinaryReadList["be.bin", "Integer16", ByteOrdering -> +1];\na = ArrayReshape[a, {3, 2}];\ng[k_?IntegerQ] := \n    Module[{l},\n        l = k;\n        s = l + 1;\n        a[[s;;3]]]\nb = g[1]', 'b', (2, 2), [3, 4, 5, 6]),
    ('mathematica', '(* comment *)\na = BinaryReadList["le.bin", "Integer16", ByteOrdering -> -1];\nb = a[[3;;2]]', 'b', (0,), []),
    ('maple', 'a := FileTools[Binary][Read]("le.bin", integer[2], byteorder=little, output=Array);\nFileTools[Binary][Close]("le.bin");\na := ArrayTools[Reshape](a, [2, 3]);\ng := proc (k::integer);\n    a(.., k + 1 .. 3);\nend proc;\nb := g(1);', 'b', (2, 2), [3, 4, 5, 6]),
]
NEG = [
    ('matlab', "f = fopen('le.bin');\na = fread(f, 6, '*int16', '4, ieee-le');"),                 # skip and format in one string
    ('matlab', "f = fopen('le.bin');\na = fread(f, [1, 2, 3], '*int16', 'ieee-le');"),            # size must be a scalar or [m n]
    ('matlab', "f = fopen('le.bin');\na = fread(f, 7, '*int16', 'ieee-le');"),                    # reads past the end
    ('matlab', "f = fopen('le.bin');\na = reshape(fread(f, 6, '*int16', 'l'), [4, 2]);"),        # element count changes
    ('matlab', "f = fopen('le.bin', 'w');"),                                                        # opens for writing
    ('scilab', 'f = mopen("le.bin", "rb");\na = mgeti(6, "q", f);'),                               # unknown type letter
    ('R', 'f <- file("le.bin", "rb")\na <- readBin(con=f, what=integer(), n=6, size=4, signed=FALSE, endian="little")'),   # unsigned only for sizes 1, 2
    ('R', 'f <- file("le.bin", "rb")\na <- readBin(con=f, what=integer(), n=6, size=2, endian="middle")'),
    ('julia_ver1', 'f = open("le.bin","r");\na = Mmap.mmap(f, Array{Int16,1}, (6,));'),           # Mmap not loaded
    ('julia_ver1', 'using Mmap\nf = open("le.bin","r");\na = Mmap.mmap(f, Array{Int16,2}, (6,));'),   # rank of the type and of dims disagree
    ('julia_ver1', 'f = open("le.bin","r");\na = read(f, Int16, (3, 2));'),                        # removed in Julia 1.0
    ('julia_ver1', 'f = open("le.bin","r");\na = map(ltoh, read!(f, Array{Int16}(undef, 2, 3)));\nb = a[:, 4]'),     # BoundsError
    ('idl', 'a = read_binary("le.bin", data_type=7, data_dims=[6], endian="little")'),            # 7 = string, not numeric
    ('mathematica', '(* comment *):\na = 1'),                                                       # stray colon
    ('mathematica', 'a = BinaryReadList["le.bin", "Integer12", ByteOrdering -> -1];'),
    ('maple', 'a := FileTools[Binary][Read]("le.bin", integer[3], byteorder=little, output=Array);'),
]

bad = 0
for lang, prog, var, dims, vals in POS:
    try:
        it = dialects.make(lang, d).run(prog)
        v = it.env.get(var)
        if dims == 'NULL':
            ok = v is None
        elif dims is None:
            ok = not isinstance(v, np.ndarray) and float(v) == vals[0]
        else:
            flat = flatF(v) if it.colmajor else np.asarray(v).ravel()
            gd = tuple(x for x in np.shape(v) if x != 1) if it.squeeze_compare else tuple(np.shape(v))
            wd = tuple(x for x in dims if x != 1) if it.squeeze_compare else tuple(dims)
            ok = gd == wd and list(flat) == list(vals)
        if not ok:
            bad += 1
            print(f'FAIL {lang}: {var} = {v!r} (dims {np.shape(v)}), expected dims {dims} values {vals}\n{prog}\n')
    except Exception as e:
        bad += 1
        print(f'FAIL {lang}: {type(e).__name__}: {e}\n{prog}\n')
for lang, prog in NEG:
    try:
        dialects.make(lang, d).run(prog)
        bad += 1
        print(f'FAIL {lang}: ill-formed program was accepted\n{prog}\n')
    except IllFormed:
        pass
    except Exception as e:
        bad += 1
        print(f'FAIL {lang}: expected IllFormed, got {type(e).__name__}: {e}\n{prog}\n')
shutil.rmtree(d)
print(f'langtest: {len(POS)} positive, {len(NEG)} negative programs, {bad} unexpected')
sys.exit(1 if bad else 0)
