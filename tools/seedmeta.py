#!/venv/bin/python
"""Compose seeded/<name>/meta.json from the sub-agent's meta (agent_meta.json) and my confirmation run (confirm.txt)."""
import json, os, glob, re
HOME = os.path.dirname(os.path.dirname(os.path.abspath(__file__)))
NOTES = {
 'C06-r2b': 'round 2. Initially MISSED: no array was reached through a symlinked directory followed by "..". Added (and handles opened by relative paths)',
 'C06-r2c': 'round 2. First evaluation ended with exit 2: the Julia reference interpreter did not know reinterpret(); it now implements it, and the generated program is found ill-formed (ArgumentError for an odd first dimension / wrong dims)',
 'C07-r2b': 'round 2. Shows only in README.txt (snippets stale after a truncation that crosses the 3/2 or 2/1 subarray boundary): caught by C08, not by C07, as its author predicted',
 'C10-r2b': 'round 2. Initially MISSED: no item with exactly the atom shape (rank one lower); kind atomshaped added',
 'C10-r2c': 'round 2. Initially MISSED: all big items were multiples of 4096 bytes; bigtail regime added (72 016-byte items, write refused inside the buffered tail)',
 'C11-r2a': 'round 2. Initially MISSED: needs metadata.accessmode set to r+ on its own, then accessmode = r assigned to a handle that already reports r; added as a way of obtaining mode r',
 'C11-r2b': 'round 2. Initially MISSED: needs the switch to r while the arrays are held open read-write; added for the mutators guarded by the handle mode (append, iterappend, metadata)',
 'C14-r2a': 'round 2. Caught only after values beyond 2**53 were added for fit_frames (exact-integer oracle)',
 'C14-r2b': 'round 2. First evaluation killed a worker (the check touched a view of the closed map): the detachment test now precedes any access, as in C12; the accessmode argument of iterchunks is now generated',
 'C14-r2c': 'round 2. Caught only after non-integral float parameters were added as an invalid class',
 'C18-r2a': 'round 2. Caught by the by-path calls and, since the r+ reopen was added, directly by Array(path, "r+")',
 'C18-r2c': 'round 2. Caught only after shapes with a zero extent in a non-first axis over a non-empty file were added',
 'C20-r2a': 'round 2. Caught only after the path-re-created-as-the-other-kind scenarios were added',
 'C20-r2c': 'round 2. Caught only after user-file names that merely start like a protected name were added',
 'C02-r2a': 'round 2. A C02 seed that needs a short write on the first appended chunk; caught by the C09 check (fault injection), not by C02',
 'C02-r2c': 'round 2. Initially MISSED: truncation was not issued inside open contexts. Array histories now carry a consistency-only truncate inside a context (files, descriptor and a fresh handle must agree; what the truncation should do there is not claimed)',
 'C03-r2c': 'round 2. A C03 seed that needs a write failing part-way; caught by C09',
 'C05-r2c': 'round 2. A C05 seed that needs an index-row write to fail; caught by C10',
 'C08-r2a': 'round 2. Initially MISSED (needs a handle constructed read-only, switched to r+, then first/last metadata key); deterministic histories of that shape were added to C08',
 'C08-r2c': 'round 2. Initially MISSED (needs shrink below five subarrays on one handle, then regrowth with other lengths); deterministic shrink-regrow histories were added to C08',
 'C09-r2a': 'round 2. Initially MISSED: failing appends were not issued while the array is held open after it grew in the same open period; added',
 'C09-r2b': 'round 2. Initially MISSED: no operand longer than 2**20 rows; a huge list with an unconvertible tail was added',
 'C09-r2c': 'round 2. Initially MISSED: all big chunks were multiples of the 4096-byte stdio buffer; a regime with 72 016-byte chunks and limits inside the buffered tail was added',
 'C12-r2b': 'round 2. Initially MISSED: every case used an r+ handle with default contexts; read-only handles with an explicit open_array(accessmode="r+") block were added',
 'C12-r2c': 'round 2. Initially MISSED: no abandoned/closed iterchunks iterator in C12 sequences; added (C19 catches the same root cause)',
 'C15-r2c': 'round 2. First evaluation ended in a harness error (the check read the archive the refused call had deleted); now reported as archive-refused-but-changed',
 'C16-r2a': 'round 2. Initially MISSED: no foreign file whose name differs from a Darr file name only in case; added',
 'C16-r2b': 'round 2. Initially MISSED: no delete through an object that outlived its array; adding it exposed the genuine defect 9ed7a5b in delete_raggedarray',
 'C16-r2c': 'round 2. Initially MISSED: creating functions were never given an input that fails after the first item on an occupied path; added',
 'C17-r2a': 'round 2. Initially MISSED: crash states were reopened read-only only; they are now reopened with accessmode r and r+',
 'C19-r2a': 'round 2. Initially MISSED: schedules used an r+ handle and argument-less contexts only; read-only handles with explicit open_array("r+") were added',
 'C19-r2c': 'round 2. Initially MISSED: no failing (handled) access while the map is shared; the badread action was added',
 'C01-b': 'initially MISSED by C01 (mixed-byte-order chunks of one numeric type were generated too rarely); the gen form now draws the swapped byte order explicitly and the grid adds one such program per type/byte order',
 'C02-a': 'initially MISSED by C02 (histories always started from C-contiguous input); start states now carry a memory layout and chunklen',
 'C02-b': 'a C02 seed caught by the C09 check (it only shows after an append that fails part-way through a write, which is C09\'s fault model); C02 itself does not inject I/O faults. The 0-d-operand scenario of the demo was disabled when filed because fix 34027b0 made 0-d operands legal',
 'C03-a': 'patch rebased by hand onto the later repository HEAD (the _append method had been changed by fix 76b7fd3); same edit, same intent',
 'C05-b': 'patch rebased by hand onto the later HEAD (append now delegates to iterappend, fix 8980f17); initially MISSED: no history issued appends while the arrays were held open; rhist now has a ctx op (open_arrays()/iter_arrays())',
 'C07-b': 'initially MISSED by C07 (programs were only generated from freshly created arrays); C07 now also reaches the final state through a history on one live handle; C08 catches it as well (README differs from a fresh handle\'s text)',
 'C11-a': 'patch rebased by hand onto the later HEAD; initially MISSED: C11 had no way of obtaining mode r "around" a documented open_array(accessmode="r+") block; the how-dimension now has after-r+block',
 'C12-a': 'caught only after NumPy integer scalars were added to the index strategy (the first evaluation ran before that change)',
}
for d in sorted(glob.glob(os.path.join(HOME, 'seeded', '*'))):
    name = os.path.basename(d)
    try:
        am = json.load(open(os.path.join(d, 'agent_meta.json')))
    except Exception:
        am = {}
    conf = open(os.path.join(d, 'confirm.txt')).read().strip().splitlines() if os.path.exists(os.path.join(d, 'confirm.txt')) else []
    checks = next((l for l in conf if l.startswith('checks:')), '')
    meta = {
        'property': am.get('property', name.split('-')[0]),
        'seed': name,
        'summary': am.get('summary'),
        'needs': am.get('needs'),
        'origin': 'written by an independent sub-agent that saw only the property text and its own scratch worktree of /repo',
        'agent_ran': am.get('ran'),
        'confirmed_by_me': {
            'how': 'tools/seedeval.sh: patch applied to a scratch copy of /repo HEAD; full pytest suite there; demo.py against clean and patched copy; ./check <ID> --tier quick with DARR_SRC=<patched copy>',
            'results': conf,
        },
        'caught_by': re.findall(r'(C\d\d)=CAUGHT', checks),
        'missed_by': re.findall(r'(C\d\d)=MISSED', checks),
    }
    if name in NOTES:
        meta['note'] = NOTES[name]
    json.dump(meta, open(os.path.join(d, 'meta.json'), 'w'), indent=1)
print('ok')
