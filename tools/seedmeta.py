#!/venv/bin/python
"""Compose seeded/<name>/meta.json from the sub-agent's meta (agent_meta.json) and my confirmation run (confirm.txt)."""
import json, os, glob, re
HOME = os.path.dirname(os.path.dirname(os.path.abspath(__file__)))
NOTES = {
 'C01-r3b': 'round 3. Initially MISSED: every creation was checked in isolation. C01 now runs creation SEQUENCES in one process (same shape, dtype and chunk length; constant / fill function / the same constant again; fill functions that fail part-way), generated and as a fixed grid',
 'C01-r3d': 'round 3. Initially MISSED, same remedy as C01-r3b: a fill function that raises at chunk k, followed by further creations that must be right',
 'C02-r3b': 'round 3. A C02 seed that needs a short write on the first chunk of an append to a non-empty array; caught by the C09 check (fault injection), not by C02',
 'C02-r3d': 'round 3. A C02 seed that needs a short write; caught by C09',
 'C02-r3c': 'round 3. Initially MISSED (NumPy integers were kept out of truncate indices), then exit 2 (the harness died reopening the damaged array). Now: NumPy-integer truncation indices with a refuse-or-honour oracle, appends of up to 9000 rows so that narrow offsets wrap, and a failing reopen is a reported violation',
 'C03-r3b': 'round 3. Initially MISSED: no zero-row operand with an incompatible trailing shape or rank; kinds zero-badshape / zero-badrank / [] added',
 'C03-r3c': 'round 3. Caught at once, but through a side path; histories now also append 7..9000 rows so that lengths gain and lose decimal digits',
 'C04-r3d': 'round 3. Initially MISSED: the live handle was read after every step, which keeps any per-handle cache fresh. Histories can now be lazy: the live handle is read only after flagged steps and at the end (a fresh handle after every step)',
 'C05-r3b': 'round 3. A C05 seed that needs the index-row write to fail after the values were written; caught by C10',
 'C05-r3d': 'round 3. Initially MISSED: only one array object was alive at a time. Histories now create sibling arrays (other dtype / atom / index type) that stay alive, and check them at the end',
 'C06-r3b': 'round 3. Initially MISSED: base-relative paths never contained ".." behind a symlinked directory; added, with a decoy array where a lexical collapse would point; the path oracle now accepts lexically equivalent spellings only if they still name the data file',
 'C06-r3d': 'round 3. Initially MISSED: the same question was never asked before and after a truncation on one handle with nothing in between; churn modes ask-trunc-ask / ask-append-ask added',
 'C07-r3c': 'round 3. Initially MISSED: no history whose last step is a truncation by object after code had been requested at the larger length; churn mode trunc-last added',
 'C08-r3b': 'round 3. Initially MISSED: histories contained no failing appends. Failing iterappends (iterable raises / bad item after k good ones) are now history steps for Array and RaggedArray',
 'C08-r3d': 'round 3. Initially MISSED: the fixed shrink-regrow history switched handles half-way. Generated grow / shrink / regrow histories on ONE handle around 5 subarrays were added (also used by C04, C05)',
 'C09-r3c': 'round 3. Initially MISSED: the only unconvertible element was a string. Kinds overflow (Python int outside the integer type: OverflowError), None (integers only), ragged rows, complex into real were added',
 'C10-r3c': 'round 3. First evaluation ended in exit 2 (the forked fault child died with SIGSEGV while inspecting the array). A fault child killed by SIGSEGV/SIGBUS is now reported as a violation',
 'C11-r3c': 'round 3. Initially MISSED: metadata states had two keys or none. A single-key state (the mutator removes the last key, the file is unlinked) was added',
 'C12-r3a': 'round 3. Initially MISSED: no Python bool as an index; added (alone and inside tuples)',
 'C12-r3b': 'round 3. Initially MISSED: read-only handles were only combined with explicit r+ blocks. C12 cases are now op lists with contexts and live iterators of any mode, nested in any combination, and mode assignments',
 'C12-r3c': 'round 3. Initially MISSED, same remedy as C12-r3b (a refused r+ request nested in an r block is tolerated, the descriptor leak after leaving is not)',
 'C12-r3d': 'round 3. Initially MISSED, same remedy as C12-r3b (refused write outside, then a write inside an explicit r+ block)',
 'C13-r3a': 'round 3. Initially MISSED: NumPy scalars were int8/uint16/int64/uint64 and float16/32/64 only; all integer widths, longdouble, 0-d and big-endian arrays added',
 'C13-r3d': 'round 3. Initially MISSED: arrays were always created on fresh paths; start states on a path occupied by an array with metadata (overwrite=True with None / {} / given metadata, and copy() onto it) added',
 'C14-r3a': 'round 3. A C14 seed that needs two interleaved iterators with adjacent frames; caught by C19 after its generators got a parameter set with default steps in all three',
 'C14-r3d': 'round 3. Initially MISSED: iteration was only asked of arrays at rest. Ask - change length - ask again histories on one handle added (append, failing iterappend, truncation, append inside a context)',
 'C15-r3c': 'round 3. Initially MISSED: copies always went to fresh paths; targets occupied by an array with metadata, and sources whose metadata were emptied, added',
 'C15-r3d': 'round 3. Initially MISSED, then exit 2 (the harness relied on fresh reads). The caller now changes values handed out by src.metadata in place before copying; C13 checks the same aliasing after every step',
 'C16-r3d': 'round 3. Initially MISSED: archive paths were absolute. Spellings ~/x, ./x, sub/../x, $HOME/x, relative and absolute, with older files at every candidate location, HOME and cwd inside the scratch directory (shared by C15 and C16)',
 'C18-r3a': 'round 3. Initially MISSED: every corruption changed the length or the time stamp of the descriptor. Same-length corruptions and restoring the time stamps after any corruption added; the valid array is used in the same process first',
 'C18-r3c': 'round 3. Initially MISSED: by-path calls were never made while an r+ handle created before the damage holds the array open; added (context and live iterator)',
 'C19-r3a': 'round 3. Initially MISSED: no overlapping frames with a write inside the overlap between two advances; parameter set 2 and the write-next-to-generator action added',
 'C19-r3b': 'round 3. Initially MISSED: no frames smaller than the stdio buffer with a write just behind the last returned frame; same remedy',
 'C20-r3b': 'round 3. Initially MISSED: arrays were always opened through absolute paths; handles made from relative paths and spellings that go up past the working directory and back added',
 'C06-r2b': 'round 2. Initially MISSED: no array was reached through a symlinked directory followed by "..". Added (and handles opened by relative paths)',
 'C06-r2c': 'round 2. First evaluation ended with exit 2: the Julia reference interpreter did not know reinterpret(); it now implements it, and the generated program is found ill-formed (ArgumentError for an odd first dimension / wrong dims)',
 'C07-r2b': 'round 2. Shows only in README.txt (snippets stale after a truncation that crosses the 3/2 or 2/1 subarray boundary): caught by C08, not by C07, as its author predicted',
 'C10-r2b': 'round 2. Initially MISSED: no item with exactly the atom shape (rank one lower); kind atomshaped added',
 'C10-r2c': 'round 2. Initially MISSED: all big items were multiples of 4096 bytes; bigtail regime added (72 016-byte items, write refused inside the buffered tail)',
 'C11-r2a': 'round 2. Initially MISSED: needs metadata.accessmode set to r+ on its own, then accessmode = r assigned to a handle that already reports r; added as a way of obtaining mode r',
 'C11-r2b': 'round 2. Initially MISSED: needs the switch to r while the arrays are held open read-write; added for the mutators guarded by the handle mode (append, iterappend, metadata)',
 'C14-r2a': 'round 2. Caught only after values beyond 2**53 were added for fit_frames (exact-integer oracle)',
 'C14-r2b': 'round 2. First evaluation killed a worker (the check touched a view of the closed map): the detachment test now precedes any access, as in C12; the accessmode argument of iterchunks is now generated',
 'C14-r2c': 'round 2. Caught only after non-integral float parameters were added as an invalid class',
 'C18-r2a': 'round 2. Caught by the by-path calls and, since the r+ reopen was added, directly by Array(path, "r+")',
 'C18-r2c': 'round 2. Caught only after shapes with a zero extent in a non-first axis over a non-empty file were added',
 'C20-r2a': 'round 2. Caught only after the path-re-created-as-the-other-kind scenarios were added',
 'C20-r2c': 'round 2. Caught only after user-file names that merely start like a protected name were added',
 'C02-r2a': 'round 2. A C02 seed that needs a short write on the first appended chunk; caught by the C09 check (fault injection), not by C02',
 'C02-r2c': 'round 2. Initially MISSED: truncation was not issued inside open contexts. Array histories now carry a consistency-only truncate inside a context (files, descriptor and a fresh handle must agree; what the truncation should do there is not claimed)',
 'C03-r2c': 'round 2. A C03 seed that needs a write failing part-way; caught by C09',
 'C05-r2c': 'round 2. A C05 seed that needs an index-row write to fail; caught by C10',
 'C08-r2a': 'round 2. Initially MISSED (needs a handle constructed read-only, switched to r+, then first/last metadata key); deterministic histories of that shape were added to C08',
 'C08-r2c': 'round 2. Initially MISSED (needs shrink below five subarrays on one handle, then regrowth with other lengths); deterministic shrink-regrow histories were added to C08',
 'C09-r2a': 'round 2. Initially MISSED: failing appends were not issued while the array is held open after it grew in the same open period; added',
 'C09-r2b': 'round 2. Initially MISSED: no operand longer than 2**20 rows; a huge list with an unconvertible tail was added',
 'C09-r2c': 'round 2. Initially MISSED: all big chunks were multiples of the 4096-byte stdio buffer; a regime with 72 016-byte chunks and limits inside the buffered tail was added',
 'C12-r2b': 'round 2. Initially MISSED: every case used an r+ handle with default contexts; read-only handles with an explicit open_array(accessmode="r+") block were added',
 'C12-r2c': 'round 2. Initially MISSED: no abandoned/closed iterchunks iterator in C12 sequences; added (C19 catches the same root cause)',
 'C15-r2c': 'round 2. First evaluation ended in a harness error (the check read the archive the refused call had deleted); now reported as archive-refused-but-changed',
 'C16-r2a': 'round 2. Initially MISSED: no foreign file whose name differs from a Darr file name only in case; added',
 'C16-r2b': 'round 2. Initially MISSED: no delete through an object that outlived its array; adding it exposed the genuine defect 9ed7a5b in delete_raggedarray',
 'C16-r2c': 'round 2. Initially MISSED: creating functions were never given an input that fails after the first item on an occupied path; added',
 'C17-r2a': 'round 2. Initially MISSED: crash states were reopened read-only only; they are now reopened with accessmode r and r+',
 'C19-r2a': 'round 2. Initially MISSED: schedules used an r+ handle and argument-less contexts only; read-only handles with explicit open_array("r+") were added',
 'C19-r2c': 'round 2. Initially MISSED: no failing (handled) access while the map is shared; the badread action was added',
 'C01-b': 'initially MISSED by C01 (mixed-byte-order chunks of one numeric type were generated too rarely); the gen form now draws the swapped byte order explicitly and the grid adds one such program per type/byte order',
 'C02-a': 'initially MISSED by C02 (histories always started from C-contiguous input); start states now carry a memory layout and chunklen',
 'C02-b': 'a C02 seed caught by the C09 check (it only shows after an append that fails part-way through a write, which is C09\'s fault model); C02 itself does not inject I/O faults. The 0-d-operand scenario of the demo was disabled when filed because fix 34027b0 made 0-d operands legal',
 'C03-a': 'patch rebased by hand onto the later repository HEAD (the _append method had been changed by fix 76b7fd3); same edit, same intent',
 'C05-b': 'patch rebased by hand onto the later HEAD (append now delegates to iterappend, fix 8980f17); initially MISSED: no history issued appends while the arrays were held open; rhist now has a ctx op (open_arrays()/iter_arrays())',
 'C07-b': 'initially MISSED by C07 (programs were only generated from freshly created arrays); C07 now also reaches the final state through a history on one live handle; C08 catches it as well (README differs from a fresh handle\'s text)',
 'C11-a': 'patch rebased by hand onto the later HEAD; initially MISSED: C11 had no way of obtaining mode r "around" a documented open_array(accessmode="r+") block; the how-dimension now has after-r+block',
 'C12-a': 'caught only after NumPy integer scalars were added to the index strategy (the first evaluation ran before that change)',
}
for d in sorted(glob.glob(os.path.join(HOME, 'seeded', '*'))):
    name = os.path.basename(d)
    try:
        am = json.load(open(os.path.join(d, 'agent_meta.json')))
    except Exception:
        am = {}
    conf = open(os.path.join(d, 'confirm.txt')).read().strip().splitlines() if os.path.exists(os.path.join(d, 'confirm.txt')) else []
    checks = next((l for l in conf if l.startswith('checks:')), '')
    meta = {
        'property': am.get('property', name.split('-')[0]),
        'seed': name,
        'summary': am.get('summary'),
        'needs': am.get('needs'),
        'origin': 'written by an independent sub-agent that saw only the property text and its own scratch worktree of /repo',
        'kind': am.get('kind'),
        'agent_ran': am.get('ran') or am.get('agent_ran'),
        'confirmed_by_me': {
            'how': 'tools/seedeval.sh: patch applied to a scratch copy of /repo HEAD; full pytest suite there; demo.py against clean and patched copy; ./check <ID> --tier quick with DARR_SRC=<patched copy>',
            'results': conf,
        },
        'caught_by': re.findall(r'(C\d\d)=CAUGHT', checks),
        'missed_by': re.findall(r'(C\d\d)=MISSED', checks),
    }
    if name in NOTES:
        meta['note'] = NOTES[name]
    json.dump(meta, open(os.path.join(d, 'meta.json'), 'w'), indent=1)
print('ok')
