#!/venv/bin/python
"""Compose seeded/<name>/meta.json from the sub-agent's meta (agent_meta.json) and my confirmation run (confirm.txt)."""
import json, os, glob, re
HOME = os.path.dirname(os.path.dirname(os.path.abspath(__file__)))
NOTES = {
 'C01-b': 'initially MISSED by C01 (mixed-byte-order chunks of one numeric type were generated too rarely); the gen form now draws the swapped byte order explicitly and the grid adds one such program per type/byte order',
 'C02-a': 'initially MISSED by C02 (histories always started from C-contiguous input); start states now carry a memory layout and chunklen',
 'C02-b': 'a C02 seed caught by the C09 check (it only shows after an append that fails part-way through a write, which is C09\'s fault model); C02 itself does not inject I/O faults. The 0-d-operand scenario of the demo was disabled when filed because fix 34027b0 made 0-d operands legal',
 'C03-a': 'patch rebased by hand onto the later repository HEAD (the _append method had been changed by fix 76b7fd3); same edit, same intent',
 'C05-b': 'patch rebased by hand onto the later HEAD (append now delegates to iterappend, fix 8980f17); initially MISSED: no history issued appends while the arrays were held open; rhist now has a ctx op (open_arrays()/iter_arrays())',
 'C07-b': 'initially MISSED by C07 (programs were only generated from freshly created arrays); C07 now also reaches the final state through a history on one live handle; C08 catches it as well (README differs from a fresh handle\'s text)',
 'C11-a': 'patch rebased by hand onto the later HEAD; initially MISSED: C11 had no way of obtaining mode r "around" a documented open_array(accessmode="r+") block; the how-dimension now has after-r+block',
 'C12-a': 'caught only after NumPy integer scalars were added to the index strategy (the first evaluation ran before that change)',
}
for d in sorted(glob.glob(os.path.join(HOME, 'seeded', '*'))):
    name = os.path.basename(d)
    try:
        am = json.load(open(os.path.join(d, 'agent_meta.json')))
    except Exception:
        am = {}
    conf = open(os.path.join(d, 'confirm.txt')).read().strip().splitlines() if os.path.exists(os.path.join(d, 'confirm.txt')) else []
    checks = next((l for l in conf if l.startswith('checks:')), '')
    meta = {
        'property': am.get('property', name.split('-')[0]),
        'seed': name,
        'summary': am.get('summary'),
        'needs': am.get('needs'),
        'origin': 'written by an independent sub-agent that saw only the property text and its own scratch worktree of /repo',
        'agent_ran': am.get('ran'),
        'confirmed_by_me': {
            'how': 'tools/seedeval.sh: patch applied to a scratch copy of /repo HEAD; full pytest suite there; demo.py against clean and patched copy; ./check <ID> --tier quick with DARR_SRC=<patched copy>',
            'results': conf,
        },
        'caught_by': re.findall(r'(C\d\d)=CAUGHT', checks),
        'missed_by': re.findall(r'(C\d\d)=MISSED', checks),
    }
    if name in NOTES:
        meta['note'] = NOTES[name]
    json.dump(meta, open(os.path.join(d, 'meta.json'), 'w'), indent=1)
print('ok')
