#!/bin/bash
# tools/refaceval.sh <name> <patch>... : apply behaviour-preserving patches to a scratch copy and run ALL quick checks; any non-zero exit is a false alarm to analyse.
DIR="$(cd "$(dirname "${BASH_SOURCE[0]}")/.." && pwd)"; cd "$DIR"
NAME="$1"; shift
W=$(mktemp -d /dev/shm/refac.XXXXXX); trap 'rm -rf "$W"' EXIT
mkdir -p "$W/m"; (cd /repo && git ls-files -z | xargs -0 cp --parents -t "$W/m")
for P in "$@"; do (cd "$W/m" && patch -p1 -s < "$P") || { echo "REFAC $NAME: PATCH-FAILED $P"; exit 2; }; done
mkdir -p "$W/tmp"   # the suite and demos leave mkdtemp directories behind: keep them in the scratch copy
SUITE=$(cd "$W/m" && TMPDIR="$W/tmp" PYTHONPATH="$W/m" PYTHONDONTWRITEBYTECODE=1 /venv/bin/python -m pytest -q -p no:cacheprovider -n 8 2>&1 | tail -1)
echo "REFAC $NAME: suite=[$SUITE]"
for id in ${CHECKS:-C01 C02 C03 C04 C05 C06 C07 C08 C09 C10 C11 C12 C13 C14 C15 C16 C17 C18 C19 C20}; do
  OUT=$(DARR_SRC="$W/m" VERIF_EVIDENCE_DIR="$W/ev" ./check $id --tier quick 2>&1); RC=$?
  rm -f replays/$id/found-*.json
  if [ $RC -ne 0 ]; then echo "REFAC $NAME: $id rc=$RC"; echo "$OUT" | grep -v '^KNOWN' | grep -A4 -E '^VIOLATION|HARNESS' | head -14 | cut -c1-400; else echo "REFAC $NAME: $id ok"; fi
done
