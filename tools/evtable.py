#!/venv/bin/python
"""Print a markdown table of what the evidence files of the last run of every check report (for DESIGN 8.1)."""
import json, os
HOME = os.path.dirname(os.path.dirname(os.path.abspath(__file__)))
print('| id | tier | evaluations | distinct non-trivial | classes hit | known findings seen | wall (s) |')
print('|---|---|---|---|---|---|---|')
for i in range(1, 21):
    p = os.path.join(HOME, 'evidence', f'C{i:02d}.json')
    if not os.path.exists(p):
        continue
    e = json.load(open(p))
    c = e['coverage']
    print(f"| C{i:02d} | {e['tier']} | {c['evaluations']} | {c['distinct_nontrivial']} | {len(c.get('classes', {}))} | {sum(c.get('known_findings_seen', {}).values()) if isinstance(c.get('known_findings_seen'), dict) else 0} | {e['wall_s']:.0f} |")
