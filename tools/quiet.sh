#!/bin/bash
# tools/quiet.sh "<seeds>" [tier] [ids...] : run checks on the unchanged tree with several seeds; report anything that is not exit 0.
DIR="$(cd "$(dirname "${BASH_SOURCE[0]}")/.." && pwd)"; cd "$DIR"
SEEDS="$1"; TIER="${2:-quick}"; shift 2
IDS="${*:-C01 C02 C03 C04 C05 C06 C07 C08 C09 C10 C11 C12 C13 C14 C15 C16 C17 C18 C19 C20}"
for s in $SEEDS; do for id in $IDS; do
  T0=$(date +%s); OUT=$(VERIF_SEED=$s VERIF_EVIDENCE_DIR=/dev/shm/quiet_ev ./check $id --tier $TIER 2>&1); RC=$?; T1=$(date +%s)
  echo "seed=$s $id rc=$RC $((T1-T0))s $(echo "$OUT" | grep -c '^KNOWN-FINDING') known :: $(echo "$OUT" | grep -v '^KNOWN-FINDING' | tail -1 | cut -c1-160)"
  [ $RC -ne 0 ] && echo "$OUT" | grep -A3 -E '^VIOLATION|HARNESS' | head -20
done; done
rm -rf /dev/shm/quiet_ev "$DIR"/replays/*/found-*.json
