#!/bin/bash
# tools/mutant.sh <patch> <ID> [tier]  - run a check against a scratch copy of /repo with <patch> applied.
# Prints CAUGHT / MISSED. The scratch copy and its evidence are removed afterwards.
DIR="$(cd "$(dirname "${BASH_SOURCE[0]}")/.." && pwd)"
PATCH="$(realpath "$1")"; ID="$2"; TIER="${3:-quick}"
W=$(mktemp -d /dev/shm/mut.XXXXXX 2>/dev/null || mktemp -d)
trap 'rm -rf "$W"' EXIT
mkdir -p "$W/repo" && (cd /repo && git ls-files -z | xargs -0 cp --parents -t "$W/repo") || exit 2
(cd "$W/repo" && patch -p1 -s < "$PATCH") || { echo "PATCH-FAILED $PATCH"; exit 2; }
OUT=$(DARR_SRC="$W/repo" VERIF_EVIDENCE_DIR="$W/ev" "$DIR/check" "$ID" --tier "$TIER" 2>&1); RC=$?
rm -f "$DIR"/replays/"$ID"/found-*.json
if [ $RC -eq 1 ] && echo "$OUT" | grep -q "^VIOLATION property=$ID"; then
  echo "CAUGHT $ID $(basename "$PATCH"): $(echo "$OUT" | grep -A1 '^VIOLATION' | sed -n 2p)"; exit 0
else
  echo "MISSED $ID $(basename "$PATCH") rc=$RC: $(echo "$OUT" | tail -2)"; exit 1
fi
