#!/venv/bin/python
"""Regenerates MANIFEST.json from the table below (one place to edit).
A property appears under `checks` as soon as checks/<id>.py exists, otherwise
under not_applicable with the reason given here."""
import json, os

HOME = os.path.dirname(os.path.dirname(os.path.abspath(__file__)))

# id -> (level, technique, level text, level note, design section)
T = {
 'C01': ('exploration', 'Hypothesis-generated creation inputs and creation sequences + exhaustive type/layout/form grids vs NumPy reference (bit-pattern round-trip, chunklen metamorphic relation incl. NumPy-integer chunk lengths, iterator chunks around 4 KiB / 64 KiB / 1 MiB, every NumPy spelling of the dtype argument, shapes written with NumPy integers)',
         'generated search over dtype x byte order x layout x shape x input form x dtype argument x chunklen against np.asarray/np.full computed independently; bit patterns compared; rejection leaves the parent directory snapshot unchanged',
         'NumPy is the reference; casts NumPy leaves undefined (NaN/out-of-range float->int) are not generated', '4/C01'),
 'C02': ('exploration', 'model-based histories decoded after every step by an independent raw decoder (three-way model = API = raw files) + exhaustive type table',
         'every completed step of generated histories is decoded from the files alone by a decoder that shares no code with Darr and compared with the NumPy model and the API',
         'the decoder implements docs/design.rst + README text; NumPy frombuffer is trusted for reinterpretation', '4/C02'),
 'C03': ('exploration', 'model-based stateful testing: generated op histories (bounded-exhaustive short + Hypothesis long; incl. failing and interrupted appends, Darr arrays as operands, operands up to 64 MiB in every memory layout, sibling objects, delete-and-recreate, lazily observed live handle) in lock-step with a NumPy ndarray model; descriptor watch with amplification',
         'op histories over append/iterappend/setitem/truncate/mode/reopen compared after every step with an ndarray model on live and fresh handles, prefix bytes compared on the raw file',
         'NumPy concatenate/slicing semantics are the model', '4/C03'),
 'C04': ('exploration', 'model-based stateful testing of RaggedArray against a list-of-ndarrays model (bounded-exhaustive short + Hypothesis long and grow/shrink/regrow histories, appends that fill or overfill the index type, 5000-subarray arrays; a sample re-run in a child interpreter under the C locale)',
         'generated histories compared after every step with a list-of-arrays model on live and fresh handles, all k and generated iter_arrays triples',
         'Python list slicing / range semantics are the model', '4/C04'),
 'C05': ('exploration', 'invariant over generated ragged histories (incl. appends beyond the range of the index type) checked by an independent raw decoder of values/, indices/ and the three JSON files',
         'structural invariant (contiguous index rows, last end = N, descriptor consistency) evaluated from the raw files after every step of generated histories',
         'decoder implements the documented format only', '4/C05'),
 'C06': ('exploration', 'complete enumeration of the generated-program structure space plus generated path spellings, directory names, array sizes up to 128 MiB and handle histories; Python-family code executed, foreign dialects run in reference interpreters; round-trip oracle on distinct values',
         'every (type, byte order, shape, language, path mode) program is executed (Python family) or interpreted by a per-dialect reference interpreter and must reproduce the stored values with the right axes; offer table parsed from docs/readcode.rst',
         'reference interpreters encode the documented semantics of fread/readBin/mget/read!/read_binary/BinaryReadList/FileTools[Binary][Read]; no foreign runtime exists offline', '4/C06'),
 'C07': ('exploration', 'enumerated + generated ragged programs (also large value / index arrays, odd directory names, legacy descriptions); accessor evaluated for every k in reference interpreters / exec; compared with the list-of-arrays model',
         'each generated ragged program is run and its accessor evaluated for every valid k; example statement, offer rule and no-side-effects checked',
         'same reference interpreters as C06', '4/C07'),
 'C08': ('exploration', 'model-based histories; README bytes compared with text regenerated from a fresh handle plus independent regex extraction against the model',
         'after every step of generated Array/RaggedArray histories README.txt must equal the documentation of the current on-disk state',
         'readcodetxt() of a freshly opened handle is the reference text; independent field extraction guards against a wrong generator', '4/C08'),
 'C09': ('fault_enumeration', 'enumerated failure positions/kinds incl. kernel-enforced short writes (RLIMIT_FSIZE) and descriptor exhaustion (RLIMIT_NOFILE) in forked children + Hypothesis-generated failing iterables (any exception class incl. KeyboardInterrupt); post-state vs model',
         'every failure position and kind in bounded append scenarios, real partial writes injected via RLIMIT_FSIZE at enumerated byte offsets; afterwards the array must open and equal original + completed chunks',
         'RLIMIT_FSIZE stands in for a full disk; offsets are relative to chunk boundaries on >=64 KB files', '4/C09'),
 'C10': ('fault_enumeration', 'enumerated failure positions/kinds for ragged appends incl. RLIMIT_FSIZE short writes on values and indices files and descriptor exhaustion (RLIMIT_NOFILE); failing iterables of any exception class; post-state vs list model + raw decoder',
         'every failure position/kind in bounded ragged append scenarios incl. index overflow and refused writes; afterwards the ragged array opens, is well-formed and equals original + completed subarrays',
         'as C09', '4/C10'),
 'C11': ('exploration', 'complete enumeration of the mutator x state x how-read-only matrix + Hypothesis histories of mode switches; directory snapshot oracle',
         'every cell of {Array,RaggedArray} x state x way of obtaining mode r x mutator must raise and leave the byte snapshot unchanged, then succeed after r+',
         'snapshot compares content, kind and mode bits (mtime ignored)', '4/C11'),
 'C12': ('exploration', 'Hypothesis-generated op lists (index reads/writes interleaved with contexts and live iterators of any access mode, mode assignments), differential against NumPy indexing on an in-memory reference; /proc/self/fd and maps observed',
         'generated basic/advanced index reads and writes must match NumPy (value or exception class), be detached copies, be durable in the raw file and leave no descriptor or map open',
         'NumPy indexing is the reference', '4/C12'),
 'C13': ('exploration', 'model-based stateful testing of MetaData against a dict pushed through an independent, type-strict JSON normaliser (bounded-exhaustive short + Hypothesis long sequences; equal-but-different values; descriptor watch with amplification)',
         'op sequences over setitem/update/pop/popitem/del/reopen compared after every step with a dict model through every read accessor on live and fresh handles; file existence iff non-empty',
         'json round-trip semantics of the standard library define the normaliser', '4/C13'),
 'C14': ('exploration', 'complete enumeration for n<=N plus Hypothesis-generated large values and ask-change-ask histories (two iterations advanced in turn) against a brute-force frame-list oracle',
         'iterindices/iterchunks/fit_frames compared with a while-loop definition of the frames for every parameter tuple up to a bound, invalid classes must raise ValueError',
         'none beyond NumPy slicing for chunk contents', '4/C14'),
 'C15': ('exploration', 'Hypothesis-generated sources/targets and complete dtype-spelling grid: copy equals astype reference, independence under post-copy mutation (snapshots), refused copy before a valid one, archive extraction byte-identical',
         'copies compared with src.astype(dtype) incl. empty sources, mutation of one side leaves the other side\'s snapshot unchanged, tar extraction equals the directory snapshot',
         'tarfile from the standard library is trusted for extraction', '4/C15'),
 'C16': ('exploration', 'generated foreign-content placements x targets x call forms (object, str, Path, symlink, dot) x creating functions x flag spellings; recursive byte snapshot of target and parent as oracle',
         'foreign files/dirs/symlinks must survive delete and overwrite, wrong kinds are refused with TypeError, overwrite=False changes nothing',
         'snapshot compares content, kind and link targets', '4/C16'),
 'C17': ('fault_enumeration', 'crash-point enumeration at source-line granularity (sys.settrace + directory materialisation) plus synthesised torn writes; open-or-legitimate-state oracle',
         'every distinct on-disk state between two executed lines of each scenario and torn variants are opened; result must be an error or a legitimate state',
         'process death only (kernel state survives); torn writes are synthesised prefixes', '4/C17'),
 'C18': ('exploration', 'complete single-field corruption matrix + Hypothesis/atheris mutated descriptors; must-raise oracle and open-implies-raw-decoder-agrees invariant',
         'every single-field corruption and size mismatch must make Array/RaggedArray/open raise, delete/truncate by path raise TypeError with snapshot unchanged',
         'validity of a descriptor is judged by the independent decoder', '4/C18'),
 'C19': ('exploration', 'bounded-exhaustive + Hypothesis-generated interleavings of generator/context/read/write actions (five generator parameter sets, writes next to a generator position, failing reads and refused writes), each run in a forked child against an in-memory model',
         'schedules of iterchunks generators, contexts, reads and writes on one Array run in forked children; crash, wrong value, lost write or leaked descriptor is a violation',
         'single-threaded interleavings only; the harness owns the schedule', '4/C19'),
 'C20': ('exploration', 'complete method x protected target x spelling x mode (all 71 writing mode strings) x way-of-opening matrix + generated user-file round-trips, also in a child interpreter under the C locale (+ atheris path fuzzing); snapshot oracle',
         'every public DataDir mutator with every spelling of every protected name must raise OSError and leave the snapshot unchanged; user files round-trip',
         'spellings are resolved relative to the array directory', '4/C20'),
}

PENDING_REASON = 'check not built yet in this round (design in DESIGN.md section 4); will be claimed once checks/{}.py exists'


def main():
    checks, na = [], []
    for pid in sorted(T):
        level, tech, text, note, ref = T[pid]
        if os.path.exists(os.path.join(HOME, 'checks', pid.lower() + '.py')):
            checks.append({
                'property_id': pid,
                'quick_cmd': f'./check {pid} --tier quick',
                'thorough_cmd': f'./check {pid} --tier thorough',
                'evidence_file': f'/verif/evidence/{pid}.json',
                'replay_cmd_template': f'./check {pid} --replay {{path}}',
                'engine': 'pbt',
                'level_claimed': {'category': level, 'text': text, 'design_ref': f'DESIGN.md section {ref}'},
                'level_note': note,
                'technique': tech,
            })
        else:
            na.append({'property_id': pid, 'reason': PENDING_REASON.format(pid.lower())})
    m = {
        'version': 1,
        'setup_cmd': './setup.sh',
        'hooks': {
            'guard': 'DARR_VERIF',
            'enable': 'no source hooks exist: all observation is external (return values, files, /proc/self/fd, sys.settrace, setrlimit, fork); ./check exports DARR_VERIF=1 for form only',
            'baseline_off_cmd': 'cd /repo && env -u DARR_VERIF /venv/bin/python -m pytest -q -p no:cacheprovider --timeout=900',
            'source_commits': [],
            'add_only': True,
        },
        'engines': [{'name': 'pbt', 'path': 'vlib/', 'serves_properties': [c['property_id'] for c in checks],
                     'kind_free_text': 'Hypothesis 6.168 (seeded, spec-first strategies, shrinking), bounded-exhaustive enumeration over 16 forked shards, fault injection via RLIMIT_FSIZE / RLIMIT_NOFILE / settrace, a descriptor watch around every case (a case that leaves descriptors open is repeated under a small descriptor budget), atheris for byte-level fuzzing, child interpreters under another locale (vlib/envrun.py), crash isolation (a case that kills its worker is re-run in a forked child and reported)'}],
        'checks': checks,
        'not_applicable': na,
        'notes': 'Each check: replays the committed regression corpus replays/<ID>/ first, then the generated search; exit 2 = harness problem/inconclusive, never a violation. DARR_SRC=<dir> points a check at a scratch copy (mutation testing). known_findings.json lists open/fixed findings.',
    }
    with open(os.path.join(HOME, 'MANIFEST.json'), 'w') as f:
        json.dump(m, f, indent=1)
    print(f"MANIFEST.json: {len(checks)} checks, {len(na)} not_applicable")


if __name__ == '__main__':
    main()
