#!/bin/bash
# tools/cov.sh [tier] [ids...] : statement/branch coverage of /repo/darr reached by the checks (diagnostic only; not a registered command).
# Children that leave through os._exit (C09/C10/C17/C19 fault children) do not report, so their lines are under-counted.
DIR="$(cd "$(dirname "${BASH_SOURCE[0]}")/.." && pwd)"; cd "$DIR"
TIER="${1:-quick}"; shift
IDS="${*:-C01 C02 C03 C04 C05 C06 C07 C08 C09 C10 C11 C12 C13 C14 C15 C16 C17 C18 C19 C20}"
rm -rf /dev/shm/cov; mkdir -p /dev/shm/cov
export PYTHONHASHSEED=0 PYTHONDONTWRITEBYTECODE=1 DARR_VERIF=1 OMP_NUM_THREADS=1 VERIF_HOME="$DIR" PYTHONPATH="$DIR" VERIF_EVIDENCE_DIR=/dev/shm/cov/ev
for id in $IDS; do
  /venv/bin/python -W ignore -m coverage run --rcfile="$DIR/tools/coveragerc" -m vlib.main $id --tier $TIER 2>&1 | tail -1
done
cd /dev/shm/cov && /venv/bin/python -m coverage combine --rcfile="$DIR/tools/coveragerc" >/dev/null 2>&1
/venv/bin/python -m coverage report --rcfile="$DIR/tools/coveragerc" -m 2>&1 | tee /dev/shm/cov/report.txt
