#!/bin/bash
# Offline setup: verify (and if needed install from the local wheelhouse) what the checks import.
set -u
DIR="$(cd "$(dirname "${BASH_SOURCE[0]}")" && pwd)"
PY=/venv/bin/python
WH=/opt/veriftools/wheels
export PIP_NO_INDEX=1
if ! $PY -c "import hypothesis" 2>/dev/null; then
  $PY -m pip install --no-index --find-links "$WH" hypothesis || { echo "setup: cannot install hypothesis"; exit 1; }
fi
if ! PYTHONPATH="$DIR/.deps" $PY -c "import atheris" 2>/dev/null; then
  $PY -m pip install --no-index --find-links "$WH" --target "$DIR/.deps" atheris >/dev/null 2>&1 \
    || echo "setup: atheris not installable; the thorough fuzz tiers fall back to Hypothesis-only"
fi
$PY - <<'PYE' || exit 1
import sys
sys.path.insert(0, '/repo')
import numpy, hypothesis, darr
print("setup ok: numpy", numpy.__version__, "hypothesis", hypothesis.__version__, "darr from", darr.__file__)
PYE
chmod +x "$DIR/check"
mkdir -p "$DIR/evidence"
exit 0
